"""E3 - bit-precise IEEE-754 (QF_FP) encoding, generated from the AST of
SampledDimension.position_at and SampledDimension.index_of in
/repo/nixio/dimensions.py, of the statement

    "converting the position of sample i back yields i"

for NON-dyadic sampling intervals (0.1, 0.001, 0.3 ...), where the exact-rational
lattice of the CrossHair obligations does not apply: for every sample number
0 <= i <= N

    index_of(position_at(i), LessOrEqual)    == i
    index_of(position_at(i), GreaterOrEqual) == i
    index_of(position_at(i), Less)           == i - 1   (IndexError for i == 0)

A small symbolic interpreter walks the two (loop-free) function bodies and builds
z3 Float64 terms (round-nearest-even for + - * /, roundToIntegral for np.round /
np.floor / np.ceil / int(), the documented formula for np.isclose); sampling
interval and offset are concrete doubles per query, i is a 32-bit vector.  Any AST
node outside the supported fragment makes the result INCONCLUSIVE.  The encoding is
validated on every run by evaluating it on concrete sample numbers and comparing
with the real functions.
"""
import ast
import os
import time as _time

import z3

F64 = z3.Float64()
RNE = z3.RNE()


class Unsupported(Exception):
    pass


def _method_src(repo, cls, name):
    src = open(os.path.join(repo, "nixio/dimensions.py")).read()
    tree = ast.parse(src)
    for n in tree.body:
        if isinstance(n, ast.ClassDef) and n.name == cls:
            for m in n.body:
                if isinstance(m, ast.FunctionDef) and m.name == name:
                    return m
    raise Unsupported("%s.%s not found" % (cls, name))


def _fp(x):
    if z3.is_fp(x):
        return x
    if isinstance(x, bool):
        raise Unsupported("bool used as number")
    if isinstance(x, (int, float)):
        return z3.FPVal(float(x), F64)
    raise Unsupported("cannot convert %r to a double" % (x,))


def _is_sym(x):
    return z3.is_expr(x)


class Interp:
    def __init__(self, modes, attrs):
        self.modes = modes            # name -> python object (IndexMode members)
        self.attrs = attrs            # self.<attr> -> concrete python value

    # ---- expressions --------------------------------------------------------
    def ev(self, node, env):
        if isinstance(node, ast.Constant):
            return node.value
        if isinstance(node, ast.Name):
            if node.id in env:
                return env[node.id]
            raise Unsupported("unknown name %s" % node.id)
        if isinstance(node, ast.Attribute):
            if isinstance(node.value, ast.Name) and node.value.id == "self":
                if node.attr in self.attrs:
                    return self.attrs[node.attr]
                raise Unsupported("self.%s" % node.attr)
            if isinstance(node.value, ast.Name) and node.value.id == "IndexMode":
                return self.modes[node.attr]
            if isinstance(node.value, ast.Name) and node.value.id == "np":
                return ("npfunc", node.attr)
            if node.attr == "name":        # mode.name inside messages
                return "?"
            raise Unsupported("attribute %s" % ast.dump(node)[:60])
        if isinstance(node, ast.IfExp):
            c = self.truth(self.ev(node.test, env))
            if _is_sym(c):
                a, b = self.ev(node.body, env), self.ev(node.orelse, env)
                return z3.If(c, _fp(a), _fp(b))
            return self.ev(node.body, env) if c else self.ev(node.orelse, env)
        if isinstance(node, ast.BinOp):
            a, b = self.ev(node.left, env), self.ev(node.right, env)
            return self.binop(node.op, a, b)
        if isinstance(node, ast.UnaryOp) and isinstance(node.op, ast.USub):
            v = self.ev(node.operand, env)
            return z3.fpNeg(v) if _is_sym(v) else -v
        if isinstance(node, ast.UnaryOp) and isinstance(node.op, ast.Not):
            v = self.truth(self.ev(node.operand, env))
            return z3.Not(v) if _is_sym(v) else (not v)
        if isinstance(node, ast.Compare):
            if len(node.ops) != 1:
                raise Unsupported("chained comparison")
            a, b = self.ev(node.left, env), self.ev(node.comparators[0], env)
            return self.compare(node.ops[0], a, b)
        if isinstance(node, ast.BoolOp):
            vals = [self.truth(self.ev(v, env)) for v in node.values]
            if isinstance(node.op, ast.And):
                if any((not _is_sym(v)) and (not v) for v in vals):
                    return False
                sym = [v for v in vals if _is_sym(v)]
                return z3.And(sym) if sym else True
            if any((not _is_sym(v)) and v for v in vals):
                return True
            sym = [v for v in vals if _is_sym(v)]
            return z3.Or(sym) if sym else False
        if isinstance(node, ast.Tuple):
            return tuple(self.ev(e, env) for e in node.elts)
        if isinstance(node, ast.Call):
            return self.call(node, env)
        raise Unsupported("expression %s" % type(node).__name__)

    def truth(self, v):
        if _is_sym(v):
            if z3.is_bool(v):
                return v
            if z3.is_fp(v):
                return z3.Not(z3.fpIsZero(v))
            raise Unsupported("truth of %r" % v)
        return bool(v)

    def binop(self, op, a, b):
        if not _is_sym(a) and not _is_sym(b):
            if isinstance(op, ast.Add):
                return a + b
            if isinstance(op, ast.Sub):
                return a - b
            if isinstance(op, ast.Mult):
                return a * b
            if isinstance(op, ast.Div):
                return a / b
            raise Unsupported("operator")
        a, b = _fp(a), _fp(b)
        if isinstance(op, ast.Add):
            return z3.fpAdd(RNE, a, b)
        if isinstance(op, ast.Sub):
            return z3.fpSub(RNE, a, b)
        if isinstance(op, ast.Mult):
            return z3.fpMul(RNE, a, b)
        if isinstance(op, ast.Div):
            return z3.fpDiv(RNE, a, b)
        raise Unsupported("operator %s" % type(op).__name__)

    def compare(self, op, a, b):
        if isinstance(op, (ast.In, ast.NotIn)):
            if _is_sym(a) or any(_is_sym(x) for x in b):
                raise Unsupported("symbolic membership")
            r = any(a is x or a == x for x in b)
            return r if isinstance(op, ast.In) else not r
        if isinstance(op, (ast.Is, ast.IsNot)):
            if _is_sym(a) or _is_sym(b):
                raise Unsupported("symbolic identity")
            return (a is b) if isinstance(op, ast.Is) else (a is not b)
        if not _is_sym(a) and not _is_sym(b):
            return {ast.Lt: a < b, ast.LtE: a <= b, ast.Gt: a > b, ast.GtE: a >= b,
                    ast.Eq: a == b, ast.NotEq: a != b}[type(op)] if isinstance(a, (int, float)) and \
                isinstance(b, (int, float)) else ((a == b) if isinstance(op, ast.Eq) else
                                                  (a != b) if isinstance(op, ast.NotEq) else
                                                  self._bad())
        a, b = _fp(a), _fp(b)
        if isinstance(op, ast.Lt):
            return z3.fpLT(a, b)
        if isinstance(op, ast.LtE):
            return z3.fpLEQ(a, b)
        if isinstance(op, ast.Gt):
            return z3.fpGT(a, b)
        if isinstance(op, ast.GtE):
            return z3.fpGEQ(a, b)
        if isinstance(op, ast.Eq):
            return z3.fpEQ(a, b)
        if isinstance(op, ast.NotEq):
            return z3.Not(z3.fpEQ(a, b))
        raise Unsupported("comparison")

    def _bad(self):
        raise Unsupported("comparison of non-numbers")

    def call(self, node, env):
        fn = node.func
        if isinstance(fn, ast.Name) and fn.id == "int":
            v = self.ev(node.args[0], env)
            if not _is_sym(v):
                return int(v)
            return z3.fpRoundToIntegral(z3.RTZ(), v)
        if isinstance(fn, ast.Attribute) and isinstance(fn.value, ast.Name) and fn.value.id == "np":
            args = [self.ev(a, env) for a in node.args]
            if node.keywords:
                raise Unsupported("keyword arguments to np.%s" % fn.attr)
            if fn.attr == "isclose" and len(args) == 2:
                a, b = _fp(args[0]), _fp(args[1])
                tol = z3.fpAdd(RNE, z3.FPVal(1e-08, F64), z3.fpMul(RNE, z3.FPVal(1e-05, F64), z3.fpAbs(b)))
                return z3.fpLEQ(z3.fpAbs(z3.fpSub(RNE, a, b)), tol)
            if fn.attr in ("round", "rint", "floor", "ceil", "trunc") and len(args) == 1:
                rm = {"round": RNE, "rint": RNE, "floor": z3.RTN(), "ceil": z3.RTP(), "trunc": z3.RTZ()}[fn.attr]
                return z3.fpRoundToIntegral(rm, _fp(args[0]))
            if fn.attr in ("abs", "fabs") and len(args) == 1:
                return z3.fpAbs(_fp(args[0]))
            raise Unsupported("np.%s" % fn.attr)
        if isinstance(fn, ast.Name) and fn.id in ("round",) and len(node.args) == 1:
            return z3.fpRoundToIntegral(RNE, _fp(self.ev(node.args[0], env)))
        if isinstance(fn, ast.Name) and fn.id == "abs":
            v = self.ev(node.args[0], env)
            return z3.fpAbs(v) if _is_sym(v) else abs(v)
        raise Unsupported("call %s" % ast.dump(fn)[:60])

    # ---- statements ------------------------------------------------------------
    def run(self, stmts, env, pc):
        """returns (outcomes, fallthrough) ; outcomes: [(pc, ('ret', v) | ('raise', name))],
        fallthrough: [(pc, env)]"""
        live = [(pc, env)]
        outcomes = []
        for st in stmts:
            nxt = []
            for pc0, env0 in live:
                if isinstance(st, ast.Expr) and isinstance(st.value, ast.Constant):
                    nxt.append((pc0, env0))                       # docstring
                elif isinstance(st, ast.Assign):
                    if len(st.targets) != 1 or not isinstance(st.targets[0], ast.Name):
                        raise Unsupported("assignment target")
                    e = dict(env0)
                    e[st.targets[0].id] = self.ev(st.value, env0)
                    nxt.append((pc0, e))
                elif isinstance(st, ast.Return):
                    outcomes.append((pc0, ("ret", self.ev(st.value, env0))))
                elif isinstance(st, ast.Raise):
                    exc = st.exc
                    name = exc.func.id if isinstance(exc, ast.Call) and isinstance(exc.func, ast.Name) else \
                        (exc.id if isinstance(exc, ast.Name) else "?")
                    outcomes.append((pc0, ("raise", name)))
                elif isinstance(st, ast.If):
                    c = self.truth(self.ev(st.test, env0))
                    branches = []
                    if _is_sym(c):
                        branches = [(z3.And(pc0, c), st.body), (z3.And(pc0, z3.Not(c)), st.orelse)]
                    else:
                        branches = [(pc0, st.body if c else st.orelse)]
                    for pcb, body in branches:
                        o, f = self.run(body, env0, pcb)
                        outcomes += o
                        nxt += f
                else:
                    raise Unsupported("statement %s" % type(st).__name__)
            live = nxt
        return outcomes, live


def build(repo, si, off, mode_name, frac=None):
    """returns (i bitvector, list of (path condition, outcome)) for
    index_of(position_at(i), mode) - or, with frac, for index_of(position_at(i) + frac * interval, mode)"""
    from nixio.dimensions import IndexMode
    modes = {m: getattr(IndexMode, m) for m in ("Less", "LessOrEqual", "GreaterOrEqual", "LEQ", "GEQ")}
    attrs = {"offset": off, "sampling_interval": si}
    itp = Interp(modes, attrs)
    i = z3.BitVec("i", 32)
    ifp = z3.fpSignedToFP(RNE, i, F64)
    pa = _method_src(repo, "SampledDimension", "position_at")
    io = _method_src(repo, "SampledDimension", "index_of")
    pa_arg = [a.arg for a in pa.args.args][1]
    outs, fall = itp.run(pa.body, {pa_arg: ifp}, z3.BoolVal(True))
    if fall or len(outs) != 1 or outs[0][1][0] != "ret":
        raise Unsupported("position_at is not a single return")
    pos = _fp(outs[0][1][1])
    if frac is not None:
        pos = z3.fpAdd(RNE, pos, z3.FPVal(frac * si, F64))      # a position clearly between two samples
    io_args = [a.arg for a in io.args.args]
    env = {io_args[1]: pos, io_args[2]: modes[mode_name]}
    outs, fall = itp.run(io.body, env, z3.BoolVal(True))
    for pc, _ in fall:
        outs.append((pc, ("ret", None)))
    return i, ifp, outs


def decide(repo, si, off, mode_name, N, timeout_ms=900000, lo=0, frac=None):
    out = {"si": si, "off": off, "mode": mode_name, "N": N, "lo": lo, "queries": 0, "solver_time_s": 0.0}
    t0 = _time.time()
    try:
        i, ifp, outs = build(repo, si, off, mode_name, frac)
    except Unsupported as e:
        out.update(status="inconclusive", reason="unsupported: %s" % e)
        return out
    one = z3.FPVal(1.0, F64)
    bad = []
    for pc, (kind, v) in outs:
        if frac is not None:
            # between sample i and sample i + 1: the last sample at or before is i, the first at or after i + 1
            if kind == "raise" or v is None:
                ok = z3.BoolVal(False)
            else:
                want = z3.fpAdd(RNE, ifp, one) if mode_name == "GreaterOrEqual" else ifp
                ok = z3.fpEQ(_fp(v), want)
        elif mode_name == "Less":
            if kind == "raise":
                ok = z3.And(i == 0, v == "IndexError") if isinstance(v, str) else z3.BoolVal(False)
                ok = (i == 0) if v == "IndexError" else z3.BoolVal(False)
            elif v is None:
                ok = z3.BoolVal(False)
            else:
                ok = z3.And(i != 0, z3.fpEQ(_fp(v), z3.fpSub(RNE, ifp, one)))
        else:
            if kind == "raise" or v is None:
                ok = z3.BoolVal(False)
            else:
                ok = z3.fpEQ(_fp(v), ifp)
        bad.append(z3.And(pc, z3.Not(ok)))
    s = z3.Solver()
    s.set("timeout", timeout_ms)
    s.add(z3.ULE(i, z3.BitVecVal(N, 32)), z3.UGE(i, z3.BitVecVal(lo, 32)), z3.Or(bad))
    q0 = _time.time()
    r = s.check()
    out["queries"] = 1
    out["solver_time_s"] = round(_time.time() - q0, 2)
    out["z3"] = str(r)
    out["paths"] = len(outs)
    if str(r) == "unsat":
        out["status"] = "holds"
    elif str(r) == "sat":
        out["status"] = "violated"
        out["i"] = s.model()[i].as_long()
    else:
        out.update(status="inconclusive", reason="z3 returned %s" % r)
    out["wall_s"] = round(_time.time() - t0, 2)
    return out


def concrete_outcome(repo, si, off, mode_name, ival):
    """evaluate the ENCODING at a concrete sample number (for validation)"""
    i, ifp, outs = build(repo, si, off, mode_name)
    sub = [(i, z3.BitVecVal(ival, 32))]
    for pc, (kind, v) in outs:
        c = z3.simplify(z3.substitute(pc, *sub))
        if z3.is_true(c):
            if kind == "raise":
                return ("raise", v)
            if v is None:
                return ("ret", None)
            if z3.is_expr(v):
                val = z3.simplify(z3.substitute(_fp(v), *sub))
                return ("ret", float(eval(str(val).replace("oo", "float('inf')"))) if False else _fpval(val))
            return ("ret", float(v))
    return ("none", None)


def _fpval(v):
    # z3 FP numeral -> python float
    s = z3.simplify(v)
    if z3.is_fp_value(s) if hasattr(z3, "is_fp_value") else True:
        try:
            if s.isNaN():
                return float("nan")
            if s.isInf():
                return float("-inf") if s.isNegative() else float("inf")
            sig = s.significand_as_long()
            exp = s.exponent_as_long(False)
            sign = -1.0 if s.sign() else 1.0
            if s.isSubnormal() or s.isZero():
                return sign * 0.0 if s.isZero() else sign * (sig / 2 ** 52) * 2.0 ** (-1022)
            return sign * (1 + sig / 2 ** 52) * 2.0 ** exp
        except Exception:  # noqa
            pass
    raise Unsupported("cannot read back %r" % v)


def validate(repo, cases):
    """the encoding evaluated at concrete sample numbers == the real functions"""
    import random
    from nixio.dimensions import SampledDimension, IndexMode
    rnd = random.Random(73)
    n = 0

    class G:
        def __init__(self, a):
            self.a = a

        def get_attr(self, k):
            return self.a.get(k)
    for si, off in cases:
        for mode_name in ("LessOrEqual", "GreaterOrEqual", "Less"):
            for ival in [0, 1, 2, 43, 2997] + [rnd.randrange(0, 4096) for _ in range(6)]:
                d = SampledDimension.__new__(SampledDimension)
                d._h5group = G({"sampling_interval": si, "offset": off if off else None})
                try:
                    real = ("ret", float(d.index_of(d.position_at(ival), getattr(IndexMode, mode_name))))
                except IndexError:
                    real = ("raise", "IndexError")
                enc = concrete_outcome(repo, si, off, mode_name, ival)
                if enc != real:
                    raise AssertionError("FP encoding differs from the real index_of at si=%r off=%r "
                                         "%s i=%d: %r vs real %r" % (si, off, mode_name, ival, enc, real))
                n += 1
    return n
