"""Obligation descriptor shared by harness modules, worker and driver."""
from dataclasses import dataclass, field
from typing import Any, Callable, Dict, List, Optional, Sequence


@dataclass
class Ob:
    name: str
    fn: Callable                      # private function carrying a PEP-316 contract
    timeout: float = 120.0            # CrossHair per_condition_timeout (CPU seconds)
    tiers: Sequence[str] = ("quick", "thorough")
    # dotted names of the nixio functions this obligation executes symbolically;
    # the driver checks that they exist in /repo and were entered during the
    # concrete sample runs.
    functions: Sequence[str] = ()
    # real-stack replay: callable(args: dict) -> (violated: bool, detail: dict).
    # None => the plain-CPython re-run of the harness function is the replay
    # (only for obligations without storage aspect).
    replay: Optional[Callable[[Dict[str, Any]], Any]] = None
    # partition: list of concrete values; one sub-obligation per value, the value
    # is stored in the harness module global PART before analysis.
    partition: Optional[Sequence[Any]] = None
    # per-tier partition override {"quick": [...], "thorough": [...]}
    partition_by_tier: Optional[Dict[str, Sequence[Any]]] = None
    # bug hunting only: "Not confirmed" is not an error and no coverage is claimed
    hunt: bool = False
    # what is outside the claim for this obligation (free text for the evidence)
    outside: str = ""
    # extra per-tier timeout override
    timeout_by_tier: Optional[Dict[str, float]] = None
    twin: bool = True
    # custom decider (engine E2): callable() -> dict(status=holds|violated|inconclusive,
    # counterexample=dict of args for fn, queries=int, solver_time_s=float, ...)
    custom: Optional[Callable[[], Dict[str, Any]]] = None

    def parts(self, tier: str):
        if self.partition_by_tier and tier in self.partition_by_tier:
            return list(self.partition_by_tier[tier])
        if self.partition is not None:
            return list(self.partition)
        return [None]

    def budget(self, tier: str) -> float:
        if self.timeout_by_tier and tier in self.timeout_by_tier:
            return self.timeout_by_tier[tier]
        return self.timeout


def assume(cond):
    """Assumption inside an obligation body (equivalent to a precondition, but only
    evaluated when reached, so unused symbolic arguments are never forked on).
    Under CrossHair the path is ignored; in plain CPython AssumptionFailed is raised
    and the concrete runner reports pre_ok=False."""
    if not cond:
        from crosshair.util import IgnoreAttempt
        raise IgnoreAttempt("assumption not met")


class untraced:
    """Run a block of purely CONCRETE set-up code (fixture building) at native
    speed: CrossHair's tracer is suspended inside the block.  Must not be used
    around code that touches symbolic values."""

    def __enter__(self):
        self._ctx = None
        try:
            from crosshair.tracers import NoTracing, is_tracing
            if is_tracing():
                self._ctx = NoTracing()
                self._ctx.__enter__()
        except ImportError:
            pass
        return self

    def __exit__(self, *a):
        if self._ctx is not None:
            self._ctx.__exit__(*a)
        return False
