"""fakeh5 - an in-memory stand-in for the part of the h5py API that nixio calls.

It replaces the module global `h5py` of nixio.hdf5.h5group and nixio.file (and
`os` of nixio.file through FakeOs) INSIDE the analysis process, so that the real
File / H5Group / H5DataSet / Entity / Container / entity classes run in pure
Python and names, selectors, clock values, shapes and fault flags can be
symbolic.  It idealises libhdf5 as an object store:

  * a group = ordered dict of hard links (insertion order = creation order);
    a hard link = the same node object under another name;
  * iteration / values() in creation order, visititems() in NAME order visiting
    each object once (as h5py does for creation-order-tracked groups - pinned by
    the differential script in validate_against_h5py());
  * attributes = dict; datasets = shape + (optional) nested-list value + an
    operation log (resize / write hyperslabs), so shapes may be symbolic;
  * a handle opened read-only refuses every mutation;
  * optional faults: dataset creation refuses dtypes listed in BAD_DTYPES.

It is NOT a model of what libhdf5 does with bytes on disk; properties whose
deciding behaviour is there are not claimed (DESIGN.md section 4).
"""
import copy as _copy

import numpy as _np

ACC_RDONLY, ACC_RDWR, ACC_TRUNC = 0, 1, 2

# virtual file system: path (bytes or str, normalised to str) -> Store
FS = {}
OPEN_LOG = []        # (op, path, flags) for every h5f.create/open
HANDLES = []         # every File object handed out (to check that none is leaked open)


CRASH = {"at": None, "count": 0, "hit": False}


class CrashInjected(Exception):
    """the process 'dies' at a writable open of the file (see File.__init__)"""


def reset():
    FS.clear()
    del OPEN_LOG[:]
    del HANDLES[:]
    CRASH.update(at=None, count=0, hit=False)


def crash_at(n):
    """the n-th (1-based) high-level open with write intent from now on raises CrashInjected
    BEFORE anything is touched; n may be symbolic; None = never"""
    CRASH.update(at=n, count=0, hit=False)


def _crash_point():
    CRASH["count"] += 1
    at = CRASH["at"]
    if at is not None and CRASH["count"] == at:
        CRASH["hit"] = True
        raise CrashInjected("injected interruption at writable open #%d" % CRASH["count"])


def open_handles(path=None):
    return [h for h in HANDLES if not h.closed and (path is None or h.filename == _norm_path(path))]


def _norm_path(p):
    if isinstance(p, bytes):
        p = p.decode("utf-8")
    return p


class BadDType:
    """sentinel dtype that the backend refuses (models 'unsupported data type')"""

    def __repr__(self):
        return "<unsupported dtype>"


BAD_DTYPE = BadDType()


class _Node:
    pass


class GNode(_Node):
    def __init__(self):
        self.attrs = {}
        self.links = {}


class DNode(_Node):
    def __init__(self, shape, dtype, maxshape, compression):
        self.attrs = {}
        self.shape = tuple(shape)
        self.dtype = dtype
        self.maxshape = maxshape
        self.compression = compression
        self.value = None          # nested list (row-major) when known
        self.oplog = []            # ("resize", shape) / ("write", key, data)
        self.np = None             # real NumPy structured array (1-d tables of data frames)
        self.chunked = True        # False: created from an array without chunks -> not resizable


class Store:
    def __init__(self):
        self.root = GNode()
        self.gen = 0


class NotHDF5:
    """a regular file of `size` bytes (possibly 0, possibly symbolic) that is not an HDF5 file"""

    def __init__(self, size):
        self.size = size


# ---------------------------------------------------------------------------
# low-level ids / property lists
# ---------------------------------------------------------------------------
class _PList:
    def __init__(self, kind):
        self.kind = kind
        self.order_flags = 0

    def set_link_creation_order(self, flags):
        self.order_flags = flags


class _h5p:
    FILE_ACCESS, FILE_CREATE, GROUP_CREATE = "fapl", "fcpl", "gcpl"
    CRT_ORDER_TRACKED, CRT_ORDER_INDEXED = 1, 2

    @staticmethod
    def create(kind):
        return _PList(kind)


class _h5:
    INDEX_NAME, INDEX_CRT_ORDER = 0, 1
    ITER_INC, ITER_DEC, ITER_NATIVE = 0, 1, 2


class FileId:
    def __init__(self, store, path, flags):
        self.store = store
        self.path = path
        self.flags = flags


class _h5f:
    ACC_RDONLY, ACC_RDWR, ACC_TRUNC = ACC_RDONLY, ACC_RDWR, ACC_TRUNC

    @staticmethod
    def create(path, flags=ACC_TRUNC, fapl=None, fcpl=None):
        p = _norm_path(path)
        OPEN_LOG.append(("create", p, flags))
        st = Store()
        st.order_tracked = bool(fcpl is not None and fcpl.order_flags & 1)
        FS[p] = st
        return FileId(st, p, flags)

    @staticmethod
    def open(path, flags=ACC_RDWR, fapl=None):
        p = _norm_path(path)
        OPEN_LOG.append(("open", p, flags))
        if p not in FS:
            raise OSError("Unable to open file (file does not exist)")
        if isinstance(FS[p], NotHDF5):
            raise OSError("Unable to open file (file signature not found)")
        return FileId(FS[p], p, flags)


class _Links:
    def __init__(self, handle):
        self.h = handle

    def iterate(self, func, idx_type=0, order=0, idx=0):
        names = list(self.h.node.links.keys())
        if idx_type == _h5.INDEX_NAME:
            names = sorted(names)
        if order == _h5.ITER_DEC:
            names = names[::-1]
        if idx < 0 or idx >= len(names):
            if len(names) == 0 and idx == 0:
                return None, 0
            raise KeyError("Link iteration failed (index out of range)")
        i = idx
        while i < len(names):
            r = func(names[i].encode("utf-8"))
            i += 1
            if r is not None:
                return r, i
        return None, i


class GroupId:
    def __init__(self, handle):
        self.handle = handle
        self.links = _Links(handle)


class _h5g:
    @staticmethod
    def create(parent_id, name, gcpl=None):
        parent = parent_id.handle
        parent._check_write("create group")
        if isinstance(name, bytes):
            name = name.decode("utf-8")
        if name in ("", ".") or "/" in name:
            raise ValueError("Unable to create group (invalid name %r)" % (name,))
        if name in parent.node.links:
            raise ValueError("Unable to create group (name already exists)")
        node = GNode()
        node.order_tracked = bool(gcpl is not None and gcpl.order_flags & 1)
        parent.node.links[name] = node
        return GroupId(Group._make(parent.file, node, _join(parent.name, name)))


def _join(base, name):
    if base == "/":
        return "/" + name
    return base + "/" + name


# ---------------------------------------------------------------------------
# attributes
# ---------------------------------------------------------------------------
def _attr_out(v):
    if isinstance(v, bytes):
        return v.decode("utf-8")
    if isinstance(v, _np.ndarray):
        return v.copy()
    return v


def _attr_in(v):
    if isinstance(v, _np.ndarray):
        return v.copy()
    return v


def _attr_kind(v):
    if isinstance(v, (str, bytes, _np.str_, _np.bytes_)):
        return "s"
    if isinstance(v, (bool, _np.bool_)):
        return "b"
    if isinstance(v, (float, _np.floating)):
        return "f"
    if isinstance(v, (list, tuple, _np.ndarray)):
        return "l"
    return "i"


def _attr_cast(old, value):
    """the value `modify` stores: `value` converted to the type the attribute already has"""
    k = _attr_kind(old)
    if k == "l":
        olds = list(old)
        if not isinstance(value, (list, tuple, _np.ndarray)) or len(list(value)) != len(olds):
            raise TypeError("Shape of data is incompatible with existing attribute")
        return [_attr_cast(olds[0], x) for x in value] if olds else []
    if isinstance(value, (list, tuple, _np.ndarray)):
        raise TypeError("Shape of data is incompatible with existing attribute")
    if k == "s":
        if not isinstance(value, (str, bytes, _np.str_, _np.bytes_)):
            raise TypeError("Can't implicitly convert non-string objects to strings")
        return value
    if value is None:
        raise TypeError("a number is required, not 'NoneType'")
    if k == "b":
        return bool(value)
    if k == "f":
        return float(value)
    return int(value)          # integers: truncation towards zero, text is parsed (ValueError if it cannot be)


class Attrs:
    def __init__(self, handle):
        self.h = handle

    def get(self, name, default=None):
        self.h.file._check_open()
        d = self.h.node.attrs
        if name in d:
            return _attr_out(d[name])
        return default

    def __getitem__(self, name):
        self.h.file._check_open()
        return _attr_out(self.h.node.attrs[name])

    def __setitem__(self, name, value):
        self.h._check_write("create attribute")
        self.h.node.attrs[name] = _attr_in(value)

    def get_id(self, name):
        """low-level attribute id: only its shape is modelled"""
        self.h.file._check_open()
        v = self.h.node.attrs[name]

        class _AttrId:
            pass
        a = _AttrId()
        if isinstance(v, _np.ndarray):
            a.shape = tuple(v.shape)
        elif isinstance(v, (list, tuple)):
            a.shape = (len(v),)
        else:
            a.shape = ()
        return a

    def modify(self, name, value):
        """h5py: change the value while PRESERVING the attribute's stored type (a missing attribute is
        created) - pinned by the differential script"""
        self.h._check_write("modify attribute")
        d = self.h.node.attrs
        if name not in d:
            d[name] = _attr_in(value)
            return
        d[name] = _attr_cast(d[name], value)

    def __delitem__(self, name):
        self.h._check_write("delete attribute")
        del self.h.node.attrs[name]

    def __contains__(self, name):
        return name in self.h.node.attrs

    def __iter__(self):
        return iter(sorted(self.h.node.attrs))

    def keys(self):
        return sorted(self.h.node.attrs)

    def __len__(self):
        return len(self.h.node.attrs)


# ---------------------------------------------------------------------------
# handles
# ---------------------------------------------------------------------------
class _Handle:
    @property
    def attrs(self):
        return Attrs(self)

    @property
    def parent(self):
        path = self.name.rsplit("/", 1)[0]
        if path == "":
            path = "/"
        return self.file[path]

    def _check_write(self, what):
        self.file._check_open()
        if self.file.readonly:
            raise OSError("Unable to %s (no write intent on file)" % what)


class Group(_Handle):
    def __init__(self, gid):
        h = gid.handle
        self.file, self.node, self.name = h.file, h.node, h.name

    @classmethod
    def _make(cls, file, node, name):
        g = object.__new__(Group)
        g.file, g.node, g.name = file, node, name
        return g

    @property
    def id(self):
        return GroupId(self)

    def _resolve(self, name):
        """returns (node, absolute_path) or None"""
        if isinstance(name, bytes):
            name = name.decode("utf-8")
        if not isinstance(name, str):
            raise TypeError("Accessing a group is done with bytes or str, not %s" % type(name))
        if name.startswith("/"):
            node, path = self.file.store.root, "/"
        else:
            node, path = self.node, self.name
        for part in name.split("/"):
            if part == "" or part == ".":
                continue
            if not isinstance(node, GNode) or part not in node.links:
                return None
            node = node.links[part]
            path = _join(path, part)
        return node, path

    def _wrap(self, node, path):
        if isinstance(node, GNode):
            return Group._make(self.file, node, path)
        return Dataset._make(self.file, node, path)

    def __contains__(self, name):
        self.file._check_open()
        if isinstance(name, (str, bytes)) and name in ("", b""):
            return False
        return self._resolve(name) is not None

    def __getitem__(self, name):
        self.file._check_open()
        r = self._resolve(name)
        if r is None:
            raise KeyError("Unable to open object (object %r doesn't exist)" % (name,))
        return self._wrap(*r)

    def get(self, name, default=None, getclass=False):
        r = self._resolve(name)
        if r is None:
            return default
        if getclass:
            return Group if isinstance(r[0], GNode) else Dataset
        return self._wrap(*r)

    def __setitem__(self, name, obj):
        self._check_write("create link")
        if isinstance(name, bytes):
            name = name.decode("utf-8")
        if isinstance(obj, _np.ndarray) and _is_npc(obj.dtype) and obj.ndim == 1:
            _npc_check_storable(obj.dtype)
            # h5py: group[name] = array creates a contiguous dataset (maxshape = shape)
            if name in self.node.links:
                raise TypeError("Incompatible object already exists")        # h5py's answer
            node = DNode(obj.shape, obj.dtype, tuple(obj.shape), None)
            node.np = _npc_in(obj, obj.dtype, None)
            node.chunked = False
            self.node.links[name] = node
            return
        if not isinstance(obj, _Handle):
            raise TypeError("fakeh5: only hard links to existing objects are modelled")
        if name in ("", ".") or "/" in name:
            raise ValueError("Unable to create link (invalid name %r)" % (name,))
        if name in self.node.links:
            raise OSError("Unable to create link (name already exists)")
        if obj.file.store is not self.file.store:
            raise OSError("Unable to create link (interfile hard links are not allowed)")
        self.node.links[name] = obj.node

    def __delitem__(self, name):
        if isinstance(name, bytes):
            name = name.decode("utf-8")
        self.file._check_open()
        if self.file.readonly:
            raise KeyError("Couldn't delete link (no write intent on file)")
        node = self.node
        if "/" in name:
            head, _, name = name.rpartition("/")
            r = self._resolve(head if head else "/")
            if r is None or not isinstance(r[0], GNode):
                raise KeyError("Couldn't delete link (component not found)")
            node = r[0]
        if name not in node.links:
            raise KeyError("Couldn't delete link (link %r doesn't exist)" % (name,))
        del node.links[name]

    def __len__(self):
        self.file._check_open()
        return len(self.node.links)

    def __iter__(self):
        return iter(list(self.node.links.keys()))

    def keys(self):
        return list(self.node.links.keys())

    def values(self):
        return [self._wrap(n, _join(self.name, k)) for k, n in list(self.node.links.items())]

    def items(self):
        return [(k, self._wrap(n, _join(self.name, k))) for k, n in list(self.node.links.items())]

    def visititems(self, func):
        """H5Ovisit: name order, every object once, children read when the parent
        is entered (so links removed by the callback are not followed)."""
        seen = {id(self.node)}

        def rec(node, rel, path):
            for k in sorted(node.links.keys()):
                if k not in node.links:
                    continue
                child = node.links[k]
                if id(child) in seen:
                    continue
                seen.add(id(child))
                crel = k if rel == "" else rel + "/" + k
                cpath = _join(path, k)
                r = func(crel, self._wrap(child, cpath))
                if r is not None:
                    return r
                if isinstance(child, GNode):
                    r = rec(child, crel, cpath)
                    if r is not None:
                        return r
            return None
        return rec(self.node, "", self.name)

    def require_dataset(self, name, shape, dtype, chunks=None, maxshape=None, **kw):
        if name in self.node.links:
            node = self.node.links[name]
            if not isinstance(node, DNode):
                raise TypeError("Incompatible object (Group) already exists")
            if tuple(shape) != tuple(node.shape):
                raise TypeError("Shapes do not match (existing %r vs new %r)" % (node.shape, shape))
            return Dataset._make(self.file, node, _join(self.name, name))
        self._check_write("create dataset")
        if isinstance(dtype, BadDType):
            raise TypeError("Object dtype %r has no native HDF5 equivalent" % (dtype,))
        for s in shape:
            if s < 0:
                raise ValueError("Unable to create dataset (negative extent)")
        node = DNode(shape, dtype, maxshape, kw.get("compression"))
        if _is_npc(dtype):
            _npc_check_storable(dtype)
            if len(shape) != 1:
                raise TypeError("fakeh5: tables are 1-d")
            node.np = _npc_zeros(shape[0], dtype)
            node.chunked = bool(chunks) or (maxshape is not None and tuple(maxshape) != tuple(shape))
        self.node.links[name] = node
        return Dataset._make(self.file, node, _join(self.name, name))

    def create_dataset(self, name, shape=None, dtype=None, data=None, chunks=None, maxshape=None, **kw):
        """h5py Group.create_dataset as nixio.cmd.upgrade uses it: 1-d, from data; `name` may be
        an absolute or relative path whose parent exists"""
        self._check_write("create dataset")
        if isinstance(name, bytes):
            name = name.decode("utf-8")
        head, _, leaf = name.rpartition("/")
        if head == "":
            parent = self if not name.startswith("/") else self.file
        else:
            parent = self[head]
        if not isinstance(parent, Group):
            raise TypeError("fakeh5: parent of a new dataset is not a group")
        if leaf in parent.node.links:
            raise ValueError("Unable to create dataset (name already exists)")
        if isinstance(data, _np.ndarray) and _is_npc(data.dtype) and data.ndim == 1 and \
                (dtype is None or _is_npc(dtype)):
            # a table made from a structured array: contiguous (fixed size) unless chunks / maxshape say otherwise
            dt = data.dtype if dtype is None else dtype
            _npc_check_storable(dt)
            node = DNode(data.shape, dt, maxshape if maxshape is not None else tuple(data.shape), kw.get("compression"))
            node.np = _npc_in(data, dt, None)
            node.chunked = bool(chunks) or (maxshape is not None and tuple(maxshape) != tuple(data.shape))
            parent.node.links[leaf] = node
            return Dataset._make(self.file, node, _join(parent.name, leaf))
        if isinstance(dtype, _DT):
            dtype = dtype.dt
        if dtype is None and isinstance(data, _FArr):
            dtype = data.dtype.dt
        if isinstance(dtype, BadDType):
            raise TypeError("Object dtype %r has no native HDF5 equivalent" % (dtype,))
        if isinstance(dtype, type) and dtype in (float, int, bool):
            dtype = _np.dtype(dtype)
        items = None
        if data is not None:
            items = _as_list(data)
            if items is None:
                raise TypeError("fakeh5: create_dataset(data=...) expects a sequence")
            if isinstance(dtype, CompoundDT):
                items = [r if isinstance(r, _Row) else _Row(dtype, r) for r in items]
            else:
                _check_convertible(dtype, items)
            if shape is None:
                shape = (len(items),)
        if shape is None:
            raise TypeError("One of data, shape or dtype must be specified")
        if isinstance(shape, int):
            shape = (shape,)
        node = DNode(shape, dtype, maxshape if maxshape is not None else tuple(shape), kw.get("compression"))
        node.value = items
        parent.node.links[leaf] = node
        return Dataset._make(self.file, node, _join(parent.name, leaf))

    def copy(self, source, dest, name=None, shallow=False):
        """H5Ocopy as h5py exposes it: the whole hierarchy below `source` is duplicated; hard links
        among the copied objects stay shared inside the copy (cycles included), objects outside the
        hierarchy that are linked from inside are duplicated too; shallow = immediate members only
        (immediate subgroups keep their attributes but lose their members).  Pinned by
        _script_copy in the differential validation."""
        dest._check_write("copy object")
        if isinstance(source, (str, bytes)):
            r = self._resolve(source)
            if r is None:
                raise RuntimeError("Unable to copy object (object doesn't exist)")
            srcnode, srcpath = r
        else:
            srcnode, srcpath = source.node, source.name
        if name is None:
            name = srcpath.rsplit("/", 1)[1]
        if name in dest.node.links:
            raise RuntimeError("Unable to copy object (destination object already exists)")
        if shallow and isinstance(srcnode, GNode):
            new = GNode()
            new.attrs = _copy.deepcopy(srcnode.attrs)
            if hasattr(srcnode, "order_tracked"):
                new.order_tracked = srcnode.order_tracked
            for k, ch in srcnode.links.items():
                if isinstance(ch, GNode):
                    sub = GNode()
                    sub.attrs = _copy.deepcopy(ch.attrs)
                    if hasattr(ch, "order_tracked"):
                        sub.order_tracked = ch.order_tracked
                    new.links[k] = sub
                else:
                    new.links[k] = _copy.deepcopy(ch)
        else:
            new = _copy.deepcopy(srcnode)
        dest.node.links[name] = new


class File(Group):
    def __init__(self, fid, mode=None, **kw):
        if not isinstance(fid, FileId):
            # high-level h5py.File(name, mode): what nixio.cmd.upgrade uses
            p = _norm_path(fid)
            mode = "r" if mode is None else mode
            OPEN_LOG.append(("File", p, mode))
            if mode == "r":
                if p not in FS:
                    raise FileNotFoundError("Unable to open file (file does not exist): %r" % (p,))
                fid = FileId(FS[p], p, ACC_RDONLY)
            elif mode in ("a", "r+"):
                _crash_point()
                if p not in FS:
                    if mode == "r+":
                        raise FileNotFoundError("Unable to open file (file does not exist): %r" % (p,))
                    FS[p] = Store()
                    FS[p].order_tracked = False
                fid = FileId(FS[p], p, ACC_RDWR)
            else:
                raise ValueError("fakeh5: File mode %r is not modelled" % (mode,))
        self.fid = fid
        self.store = fid.store
        self.file = self
        self.node = fid.store.root
        self.name = "/"
        self.readonly = fid.flags == ACC_RDONLY
        self.closed = False
        self.filename = fid.path
        self.flushes = 0
        HANDLES.append(self)

    def _check_open(self):
        if self.closed:
            raise ValueError("Invalid file identifier (file is closed)")

    @property
    def mode(self):
        self._check_open()
        return "r" if self.readonly else "r+"

    def flush(self):
        self._check_open()
        self.flushes += 1

    def close(self):
        self.closed = True

    def __enter__(self):
        return self

    def __exit__(self, *exc):
        self.close()
        return False


class CompoundDT:
    """compound (structured) dtype: ordered (field name, field dtype) pairs"""

    def __init__(self, fields):
        self.fields = [(n, t) for n, t in fields]

    @property
    def names(self):
        return tuple(n for n, _ in self.fields)

    def index(self, name):
        for j, (n, _) in enumerate(self.fields):
            if n == name:
                return j
        raise ValueError("no field of name %s" % name)

    def __len__(self):
        return len(self.fields)

    def __eq__(self, other):
        return isinstance(other, CompoundDT) and self.fields == other.fields

    def __hash__(self):
        return 1

    def __repr__(self):
        return "fakeh5.compound(%r)" % (self.fields,)


class _Row:
    """one element of a compound dataset (numpy.void): fields by name or position"""

    def __init__(self, dt, vals):
        self.dt = dt
        self.vals = tuple(vals)

    def __getitem__(self, k):
        if isinstance(k, str):
            return self.vals[self.dt.index(k)]
        return self.vals[k]

    def __len__(self):
        return len(self.vals)

    def __eq__(self, other):
        return isinstance(other, _Row) and self.vals == other.vals

    def __hash__(self):
        return hash(self.vals)

    def __repr__(self):
        return "fakeh5.row%r" % (self.vals,)


class _FArr:
    """what reading a dataset returns: nested-list data with shape and dtype"""

    def __init__(self, data, shape, dtype):
        self.data = data
        self.shape = tuple(shape)
        self.dtype = _DT(dtype)

    def __len__(self):
        if not self.shape:
            raise TypeError("len() of unsized object")
        return self.shape[0]

    def __iter__(self):
        return iter(self.data)

    # elementwise comparison with a scalar and boolean-mask selection (1-d), as numpy arrays do
    def _cmp(self, other, op):
        if len(self.shape) != 1 or isinstance(other, (_FArr, list, tuple, _np.ndarray)):
            return NotImplemented
        return _FArr([op(x, other) for x in self.data], self.shape, _np.dtype("bool"))

    def __eq__(self, other):
        return self._cmp(other, lambda a, b: a == b)

    def __ne__(self, other):
        return self._cmp(other, lambda a, b: a != b)

    def __gt__(self, other):
        return self._cmp(other, lambda a, b: a > b)

    def __ge__(self, other):
        return self._cmp(other, lambda a, b: a >= b)

    def __lt__(self, other):
        return self._cmp(other, lambda a, b: a < b)

    def __le__(self, other):
        return self._cmp(other, lambda a, b: a <= b)

    __hash__ = None

    def __getitem__(self, i):
        if isinstance(i, _FArr) and len(self.shape) == 1 and i.shape == self.shape:
            sel = [x for x, m in zip(self.data, i.data) if m]
            return _FArr(sel, (len(sel),), self.dtype.dt)
        if isinstance(i, tuple):
            # NumPy-style indexing of the nested list with ints / slices
            def rec(x, keys):
                if not keys:
                    return x
                k = keys[0]
                if isinstance(k, slice):
                    return [rec(e, keys[1:]) for e in x[k]]
                if not (-len(x) <= k < len(x)):
                    raise IndexError("index is out of bounds for axis with size %d" % len(x))
                # explicit selection: a (possibly symbolic) index never reaches list.__getitem__
                for j in range(len(x)):
                    if k == j or k == j - len(x):
                        return rec(x[j], keys[1:])
                raise IndexError("index out of bounds")
            if len(i) > len(self.shape):
                raise IndexError("too many indices for array")
            res = rec(self.data, list(i))
            if not isinstance(res, list):
                return res
            # shape of the selection: slices keep their axis (with the selected length), ints drop it
            shp = []
            for d, n in enumerate(self.shape):
                k = i[d] if d < len(i) else slice(None)
                if isinstance(k, slice):
                    shp.append(len(range(*k.indices(n))))
            return _FArr(res, tuple(shp), self.dtype.dt)
        return self.data[i]

    def ravel(self):
        def flat(x, d):
            if d == 0:
                return [x]
            out = []
            for e in x:
                out.extend(flat(e, d - 1))
            return out
        return flat(self.data, len(self.shape))

    def tolist(self):
        return _copy.copy(self.data)

    def __array__(self, dtype=None, copy=None):
        a = _np.empty(self.shape, dtype=object)
        if a.size:
            flat = self.ravel()
            a.ravel()[:] = flat if len(flat) == a.size else _np.array(self.data, dtype=object).ravel()
        if dtype is not None and dtype != object:
            return a.astype(dtype)
        return a


class _FScalar:
    """a single element read from a dataset (h5py returns a NumPy scalar: it has
    .dtype / .shape and converts to the plain value)"""

    def __init__(self, value, dtype):
        self.value = value
        self.dtype = _DT(dtype)
        self.shape = ()

    def __array__(self, dtype=None, copy=None):
        a = _np.empty((), dtype=object)
        a[()] = self.value
        return a

    def __float__(self):
        return float(self.value)

    def __int__(self):
        return int(self.value)

    def __index__(self):
        return int(self.value)

    def __eq__(self, other):
        o = other.value if isinstance(other, _FScalar) else other
        return self.value == o

    def __hash__(self):
        return hash(self.value)

    def __repr__(self):
        return "fakeh5.scalar(%r)" % (self.value,)

    def ravel(self):
        return [self.value]


class _DT:
    """dtype wrapper: compares equal to the dtype it wraps, has .fields"""

    def __init__(self, dt):
        self.dt = dt

    def __eq__(self, other):
        o = other.dt if isinstance(other, _DT) else other
        try:
            return bool(self.dt == o)
        except Exception:
            return False

    def __ne__(self, other):
        return not self.__eq__(other)

    def __hash__(self):
        return 0

    @property
    def fields(self):
        if isinstance(self.dt, CompoundDT):
            return dict(self.dt.fields)
        return None

    def __len__(self):
        # numpy: len(dtype) = number of fields, 0 for a plain dtype
        return len(self.dt) if isinstance(self.dt, CompoundDT) else 0

    def __bool__(self):
        return True                      # as numpy: a dtype is truthy although its len() may be 0

    def __repr__(self):
        return "fakeh5.dtype(%r)" % (self.dt,)



# ---------------------------------------------------------------------------
# 1-d tables with a NumPy compound type (data frames): the rows live in a real
# structured array; variable-length text columns hold str and are handed out as
# bytes (as h5py 3 does); row indices may be symbolic integers - they are made
# concrete by comparison chains over the (concrete) number of rows, never by
# realisation, so the path tree stays finite for unbounded indices.
# ---------------------------------------------------------------------------
def _is_npc(dtype):
    return isinstance(dtype, _np.dtype) and dtype.fields is not None


def _npc_strfields(dtype):
    import h5py
    return [n for n in dtype.names if h5py.check_string_dtype(dtype.fields[n][0]) is not None]


def _npc_check_storable(dtype):
    """a plain Python-object column has no HDF5 equivalent (only variable-length text has)"""
    import h5py
    for n in dtype.names:
        ft = dtype.fields[n][0]
        if ft.kind == "O" and h5py.check_string_dtype(ft) is None:
            raise TypeError("Object dtype dtype('O') has no native HDF5 equivalent")


def _npc_zeros(n, dtype):
    arr = _np.zeros(int(n), dtype=dtype)
    for fld in _npc_strfields(dtype):
        for i in range(len(arr)):
            arr[fld][i] = ""
    return arr


def _npc_in(data, dtype, shape):
    """what h5py does with a value written into a compound dataset: numpy.asarray(value, dtype)"""
    if isinstance(data, _np.ndarray) and data.dtype.fields is not None and data.dtype.names != dtype.names:
        raise TypeError("fakeh5: field names of the written rows differ from the table's")
    if isinstance(data, list):
        data = [tuple(r) if isinstance(r, (_np.void, list)) else r for r in data]
    arr = _np.array(data, dtype=dtype)          # raises for ragged rows / inconvertible cells
    arr = arr.copy()
    flat = arr.reshape(-1) if arr.shape else arr.reshape(1)
    for fld in _npc_strfields(dtype):
        for i in range(len(flat)):
            v = flat[fld][i]
            if isinstance(v, bytes):
                flat[fld][i] = v.decode("utf-8")
            elif isinstance(v, str):
                flat[fld][i] = str(v)
            else:
                raise TypeError("Can't implicitly convert non-string objects to strings")
    return flat.reshape(arr.shape) if arr.shape else flat[0:1].reshape(())


def _npc_out(res):
    """rows handed out: a private copy, text columns as bytes"""
    res = res.copy()
    dt = res.dtype
    if dt.fields is None:
        if dt == _np.dtype("O"):
            flat = res.reshape(-1) if isinstance(res, _np.ndarray) and res.shape else None
            if flat is not None:
                for i in range(len(flat)):
                    if isinstance(flat[i], str):
                        flat[i] = flat[i].encode("utf-8")
        return res
    if isinstance(res, _np.void):
        for fld in _npc_strfields(dt):
            res[fld] = res[fld].encode("utf-8")
        return res
    flat = res.reshape(-1)
    for fld in _npc_strfields(dt):
        col = flat[fld]
        for i in range(len(flat)):
            col[i] = col[i].encode("utf-8")
    return res


def _conc_index(k, n, fancy=False):
    """a (possibly symbolic) integer row index -> concrete position in [0, n), else IndexError"""
    if isinstance(k, bool) or not isinstance(k, (int, _np.integer)):
        try:
            k = k.__index__()
        except Exception:
            raise TypeError("Illegal index %r" % (k,))
    for j in range(n):
        if k == j or k == j - n:
            return j
    if fancy:
        if k >= n:
            raise OSError("Can't read data (fancy index out of range)")      # what h5py raises here
        raise IndexError("Fancy indexing out of range for (0-%d)" % (n - 1))
    raise IndexError("Index (%s) out of range for (0-%d)" % ("k", n - 1))


def _npc_key(key, n):
    """normalise an h5py selection on a 1-d table -> (kind, concrete numpy key)"""
    if isinstance(key, tuple):
        if len(key) == 0:
            return "all", slice(None)
        if len(key) > 1:
            raise ValueError("too many indexing arguments")
        key = key[0]
    if key is Ellipsis:
        return "all", slice(None)
    if isinstance(key, slice):
        st, sp, se = key.indices(n)
        if se < 1:
            raise ValueError("Step must be >= 1 (got %d)" % se)
        return "slice", slice(st, sp, se)
    if isinstance(key, (list, range, _np.ndarray)):
        items = list(key)
        if any(isinstance(x, (bool, _np.bool_)) for x in items):
            raise TypeError("fakeh5: boolean masks on tables are not modelled")
        idx = [_conc_index(x, n, fancy=True) for x in items]
        for a, b in zip(idx, idx[1:]):
            if not a < b:
                raise TypeError("Indexing elements must be in increasing order")
        return "list", idx
    return "int", _conc_index(key, n)


def _fill(shape):
    if len(shape) == 0:
        return 0
    return [_fill(shape[1:]) for _ in range(shape[0])]


def _concrete_shape(shape):
    from vf.models import _has_symbolic
    return not any(_has_symbolic(s) for s in shape)


class Dataset(_Handle):
    @classmethod
    def _make(cls, file, node, name):
        d = object.__new__(Dataset)
        d.file, d.node, d.name = file, node, name
        return d

    @property
    def shape(self):
        return self.node.shape

    @property
    def dtype(self):
        if self.node.np is not None:
            return self.node.np.dtype
        return _DT(self.node.dtype)

    @property
    def maxshape(self):
        return self.node.maxshape

    def __len__(self):
        if not self.node.shape:
            raise TypeError("Attempt to take len() of scalar dataset")
        return self.node.shape[0]

    @property
    def compression(self):
        return self.node.compression

    def resize(self, shape, axis=None):
        if self.file.readonly:
            raise RuntimeError("Unable to change a dataset's dimensions (no write intent on file)")
        shape = tuple(shape)
        if len(shape) != len(self.node.shape):
            raise TypeError("New shape length (%d) must match dataset rank (%d)"
                            % (len(shape), len(self.node.shape)))
        if self.node.np is not None:
            if not self.node.chunked:
                raise TypeError("Only chunked datasets can be resized")
            n, old_n = shape[0], self.node.shape[0]
            if n < 0:
                raise ValueError("Unable to set dataset extent (negative extent)")
            new = _npc_zeros(n, self.node.np.dtype)
            m = min(n, old_n)
            new[:m] = self.node.np[:m]
            self.node.np = new
            self.node.shape = (n,)
            self.node.oplog.append(("resize", shape))
            return
        self.node.oplog.append(("resize", shape))
        old = self.node.shape
        self.node.shape = shape
        v = self.node.value
        if v is not None and _concrete_shape(shape) and _concrete_shape(old):
            # n-d: every axis is cut or padded with the fill value, the rest keeps its place
            def fit(x, d):
                if d == len(shape):
                    return x
                rows = [fit(r, d + 1) for r in x[:shape[d]]]
                while len(rows) < shape[d]:
                    rows.append(_fill(shape[d + 1:]))
                return rows
            self.node.value = fit(v, 0)
        elif v is not None:
            self.node.value = None

    def read_direct(self, dest, source_sel=None, dest_sel=None):
        """h5py Dataset.read_direct: fill the caller's buffer with the stored values"""
        vals = self._value()
        for i in range(len(vals)):
            dest[i] = vals[i]

    def _value(self):
        v = self.node.value
        if v is None:
            if not _concrete_shape(self.node.shape):
                raise RuntimeError("fakeh5: reading a dataset of symbolic shape is not modelled")
            v = _fill(self.node.shape)
        return v

    def __getitem__(self, key):
        self.file._check_open()
        if self.node.np is not None:
            arr = self.node.np
            if isinstance(key, str):
                if key not in arr.dtype.names:
                    raise ValueError("Field %s does not appear in this type." % key)
                return _npc_out(arr[key])
            kind, ck = _npc_key(key, arr.shape[0])
            return _npc_out(arr[ck])
        shape = self.node.shape
        v = self._value()
        if isinstance(key, str):
            dt = self.node.dtype
            if not isinstance(dt, CompoundDT):
                raise ValueError("Field names only allowed for compound types")
            j = dt.index(key)
            return _FArr([row[j] for row in v], shape, dt.fields[j][1])
        if key is Ellipsis or key == () or (isinstance(key, slice) and key == slice(None)):
            return _FArr(_copy.deepcopy(v) if False else _shallow(v), shape, self.node.dtype)
        if not isinstance(key, tuple):
            key = (key,)
        if Ellipsis in key:
            i = key.index(Ellipsis)
            key = key[:i] + (slice(None),) * (len(shape) - len(key) + 1) + key[i + 1:]
        if len(key) > len(shape):
            raise ValueError("too many indexing arguments")
        key = key + (slice(None),) * (len(shape) - len(key))
        out_shape = []
        # h5py validates the whole selection first (also when another axis selects nothing)
        for d, k in enumerate(key):
            if isinstance(k, slice):
                if k.step is not None and k.step < 1:
                    raise ValueError("Step must be >= 1")
            elif k is Ellipsis:
                raise ValueError("Only one ellipsis may be used.")
            elif not (-shape[d] <= k < shape[d]):
                raise IndexError("Index out of range for (0-%d)" % (shape[d] - 1,))

        def rec(x, d):
            if d == len(shape):
                return x
            k = key[d]
            if isinstance(k, slice):
                idx = range(*k.indices(shape[d]))
                return [rec(x[i], d + 1) for i in idx]
            if not (-shape[d] <= k < shape[d]):
                raise IndexError("Index out of range for (0-%d)" % (shape[d] - 1,))
            return rec(x[k], d + 1)
        res = rec(v, 0)
        for d, k in enumerate(key):
            if isinstance(k, slice):
                out_shape.append(len(range(*k.indices(shape[d]))))
        if not out_shape:
            return _FScalar(res, self.node.dtype)
        return _FArr(res, out_shape, self.node.dtype)

    def __setitem__(self, key, data):
        self.file._check_open()
        if self.file.readonly:
            raise OSError("Can't write data (no write intent on file)")
        if self.node.np is not None:
            arr = self.node.np
            val = _npc_in(data, arr.dtype, None)        # h5py converts the value first
            kind, ck = _npc_key(key, arr.shape[0])
            new = arr.copy()
            if kind == "int":
                if val.shape not in ((), (1,)):
                    raise TypeError("Can't broadcast %r -> ()" % (val.shape,))
                new[ck] = val.reshape(-1)[0]
            else:
                new[ck] = val           # NumPy broadcasting rules = h5py's for 1-d selections
            self.node.np = new
            self.node.oplog.append(("write", key, data))
            return
        _check_convertible(self.node.dtype, data)
        self.node.oplog.append(("write", key, data))
        shape = self.node.shape
        whole = key is Ellipsis or key == () or (isinstance(key, slice) and key == slice(None))
        from vf.models import _has_symbolic
        if _has_symbolic(key):
            self.node.value = None        # symbolic hyperslab: only the operation log is kept
        elif len(shape) == 1 and _concrete_shape(shape):
            n = shape[0]
            items = _as_list(data)
            if whole:
                idx = list(range(n))
            elif isinstance(key, slice) or (isinstance(key, tuple) and len(key) == 1 and
                                            isinstance(key[0], slice)):
                k = key if isinstance(key, slice) else key[0]
                idx = list(range(*k.indices(n)))
            else:
                self.node.value = None
                return
            if items is None:
                items = [data] * len(idx)
            if len(items) != len(idx):
                if len(items) == 1:
                    items = items * len(idx)
                else:
                    raise TypeError("Can't broadcast %d -> %d" % (len(items), len(idx)))
            v = self._value()
            v = list(v)
            for i, x in zip(idx, items):
                v[i] = x
            self.node.value = v
        elif whole and _concrete_shape(shape):
            items = _as_list(data)
            self.node.value = items if items is not None else None
        else:
            self.node.value = None


def _is_numeric_dtype(dt):
    try:
        return _np.issubdtype(_np.dtype(dt), _np.number) or _np.dtype(dt) == _np.bool_
    except Exception:
        return False


def _check_convertible(dtype, data):
    """libhdf5/NumPy refuse text in a numeric dataset (conversion fault)."""
    if not _is_numeric_dtype(dtype):
        return
    def bad(x, depth=0):
        if isinstance(x, (str, bytes)):
            return True
        if depth < 3 and isinstance(x, (list, tuple)):
            return any(bad(e, depth + 1) for e in x)
        if isinstance(x, _np.ndarray) and x.dtype.kind in "USO":
            return any(bad(e, depth + 1) for e in x.ravel().tolist())
        return False
    if bad(data):
        raise ValueError("could not convert string to number (fakeh5 conversion fault)")


def _shallow(v):
    if isinstance(v, list):
        return [_shallow(x) for x in v]
    return v


def _as_list(data):
    if isinstance(data, _np.ndarray):
        return data.tolist()
    if isinstance(data, _FArr):
        return data.tolist()
    if hasattr(data, "items") and hasattr(data, "shape") and not isinstance(data, dict):
        return list(data.items)         # vf.models.Vec
    if isinstance(data, (list, tuple)):
        return [(_as_list(x) if isinstance(x, (list, tuple, _np.ndarray)) else x) for x in data]
    return None


def string_dtype(encoding="utf-8", length=None):
    import h5py
    return h5py.string_dtype(encoding=encoding, length=length)


class FakeOsPath:
    @staticmethod
    def exists(p):
        return _norm_path(p) in FS

    @staticmethod
    def getsize(p):
        st = FS.get(_norm_path(p))
        if st is None:
            raise FileNotFoundError(p)
        return st.size if isinstance(st, NotHDF5) else 2048

    @staticmethod
    def isfile(p):
        return _norm_path(p) in FS


class FakeOs:
    path = FakeOsPath()


class _Module:
    """object installed as the `h5py` global of nixio.hdf5.h5group / nixio.file"""
    h5f = _h5f
    h5p = _h5p
    h5g = _h5g
    h5 = _h5
    File = File
    Group = Group
    Dataset = Dataset
    string_dtype = staticmethod(string_dtype)
    CompoundDT = CompoundDT


MODULE = _Module()


def install():
    """Route nixio's backend calls to fakeh5 (inside this process only)."""
    import nixio.hdf5.h5group as hg
    import nixio.file as nf
    hg.h5py = MODULE
    nf.h5py = MODULE
    nf.os = FakeOs()
    import nixio.cmd.upgrade as up
    up.h5py = MODULE


def uninstall():
    import h5py
    import os
    import nixio.hdf5.h5group as hg
    import nixio.file as nf
    hg.h5py = h5py
    nf.h5py = h5py
    nf.os = os
    import nixio.cmd.upgrade as up
    up.h5py = h5py


# ---------------------------------------------------------------------------
# snapshots of the raw tree (used by "a refused call leaves the file as it was")
# ---------------------------------------------------------------------------
def snapshot(store, normalize=True):
    """Canonical, comparable picture of the whole store incl. hard-link structure.
    normalize: groups without attributes and without members (empty container
    groups, which no API call can observe) are left out."""
    ids = {}

    def invisible(node):
        return normalize and isinstance(node, GNode) and not node.attrs and \
            all(invisible(c) for c in node.links.values())

    def nid(node):
        if id(node) not in ids:
            ids[id(node)] = len(ids)
        return ids[id(node)]

    out = {}

    def rec(node):
        k = nid(node)
        if k in out:
            return k
        if isinstance(node, GNode):
            out[k] = None
            out[k] = ("g", tuple(sorted((a, _canon(v)) for a, v in node.attrs.items())),
                      tuple((name, rec(ch)) for name, ch in node.links.items() if not invisible(ch)))
        else:
            out[k] = ("d", tuple(sorted((a, _canon(v)) for a, v in node.attrs.items())),
                      tuple(node.shape), repr(node.dtype),
                      _canon(node.value) if node.np is None else ("npc", tuple(node.np.tolist()), node.chunked))
        return k
    rec(store.root)
    return out


def _canon(v):
    if isinstance(v, _Row):
        return ("row", _canon(v.vals))
    if isinstance(v, _np.ndarray):
        return ("nd", tuple(v.tolist()))
    if isinstance(v, (list, tuple)):
        return tuple(_canon(x) for x in v)
    return v


# ---------------------------------------------------------------------------
# differential validation against real h5py
# ---------------------------------------------------------------------------
def _script(h5, path):
    """A fixed script of backend operations; returns the list of observations.
    `h5` is either the real h5py module or fakeh5.MODULE."""
    obs = []

    def mk(parent, name):
        gcpl = h5.h5p.create(h5.h5p.GROUP_CREATE)
        gcpl.set_link_creation_order(h5.h5p.CRT_ORDER_TRACKED | h5.h5p.CRT_ORDER_INDEXED)
        return h5.Group(h5.h5g.create(parent.id, name.encode("utf-8"), gcpl=gcpl))

    def ex(fn):
        try:
            return ("ok", fn())
        except Exception as e:  # noqa
            return ("exc", type(e).__name__)

    fcpl = h5.h5p.create(h5.h5p.FILE_CREATE)
    fcpl.set_link_creation_order(h5.h5p.CRT_ORDER_TRACKED | h5.h5p.CRT_ORDER_INDEXED)
    f = h5.File(h5.h5f.create(path, flags=h5.h5f.ACC_TRUNC, fapl=h5.h5p.create(h5.h5p.FILE_ACCESS),
                              fcpl=fcpl))
    top = mk(f, "top")
    for n in ["z", "a", "m", "b"]:
        mk(top, n)
    obs.append(("iter", list(top)))
    obs.append(("values", [v.name for v in top.values()]))
    obs.append(("len", len(top)))
    for i in range(4):
        r = top.id.links.iterate(lambda n: n, idx_type=h5.h5.INDEX_CRT_ORDER,
                                 order=h5.h5.ITER_INC, idx=i)
        obs.append(("bypos", i, r[0]))
    obs.append(("bypos-oob", ex(lambda: top.id.links.iterate(
        lambda n: n, idx_type=h5.h5.INDEX_CRT_ORDER, order=h5.h5.ITER_INC, idx=4))[0]))
    top["z"]["sub"] = top["a"]
    mk(top["a"], "inner")
    obs.append(("linkname", top["z"]["sub"].name, top["z/sub/inner"].name,
                top["z"]["sub"].parent.name, top["a"].parent.name, top.parent.name))
    obs.append(("contains", "z" in top, b"z" in top, "q" in top, "z/sub" in top, "/" in f,
                "/top/a" in top, "top" in f))
    names = []
    top.visititems(lambda n, o: names.append(n))
    obs.append(("visit", names))

    def cb(n, o):
        names2.append(n)
        if n == "a":
            del o["inner"]
    names2 = []
    top.visititems(cb)
    obs.append(("visit+del", names2, "inner" in top["z"]["sub"]))
    # delete-by-marker while visiting, with hard links from several groups
    # (the traversal nixio's delete_all relies on)
    lab = mk(f, "lab")
    store = mk(lab, "store")
    for n in ("x", "y", "w"):
        mk(store, n).attrs["eid"] = n
    mk(store["w"], "inner").attrs["eid"] = "wi"
    l1 = mk(lab, "alist")
    l2 = mk(lab, "zlist")
    deep = mk(mk(lab, "mid"), "deep")
    l1["x"] = store["x"]
    l1["w"] = store["w"]
    l2["x"] = store["x"]
    l2["y"] = store["y"]
    deep["x"] = store["x"]
    deep["wi"] = store["w"]["inner"]
    for victims in (("x",), ("w", "wi")):
        visited = []

        def dele(n, o, victims=victims):
            if not isinstance(o, h5.Group):
                return
            visited.append(n)
            for child_name in list(o):
                if o[child_name].attrs.get("eid") in victims:
                    del o[child_name]
        lab.visititems(dele)
        left = []
        lab.visititems(lambda n, o: left.append(n))
        obs.append(("delete-all", victims, visited, left))
    del top["m"]
    mk(top, "c")
    obs.append(("after-del-iter", list(top)))
    obs.append(("bypos-after-del", [top.id.links.iterate(
        lambda n: n, idx_type=h5.h5.INDEX_CRT_ORDER, order=h5.h5.ITER_INC, idx=i)[0] for i in range(4)]))
    obs.append(("del-missing", ex(lambda: top.__delitem__("nope"))[1]))
    obs.append(("relink", ex(lambda: top.__setitem__("z", top["a"]))[1]))
    obs.append(("create-dup", ex(lambda: mk(top, "z"))[0]))
    obs.append(("getclass", top.get("z", getclass=True) is h5.Group, top.get("nope", getclass=True)))
    top.attrs["s"] = "str"
    top.attrs["b"] = b"bytes"
    top.attrs["i"] = 5
    obs.append(("attrs", top.attrs["s"], top.attrs["b"], int(top.attrs["i"]), top.attrs.get("nope"),
                "s" in top.attrs, "nope" in top.attrs))
    del top.attrs["s"]
    obs.append(("attr-del", "s" in top.attrs, ex(lambda: top.attrs.__delitem__("s"))[0]))
    # alias semantics: attribute set through one path is visible through the other
    top["z"]["sub"].attrs["via"] = "link"
    obs.append(("alias", top["a"].attrs.get("via")))
    ds = top.require_dataset("d", shape=(3,), dtype="f8", chunks=True, maxshape=(None,))
    ds[:] = [1.0, 2.0, 3.0]
    obs.append(("ds", float(ds[1]), [float(x) for x in ds[:]], [float(x) for x in ds[1:3]],
                tuple(ds.shape), ex(lambda: ds[7])[1], ex(lambda: ds[-4])[1], float(ds[-1])))
    ds.resize((5,))
    obs.append(("resize", [float(x) for x in ds[:]], tuple(ds.shape)))
    ds[3:5] = [8.0, 9.0]
    obs.append(("hyperslab", [float(x) for x in ds[:]]))
    ds.resize((2,))
    obs.append(("shrink", [float(x) for x in ds[:]]))
    obs.append(("resize-rank", ex(lambda: ds.resize((5, 2)))[1]))
    obs.append(("require-again", tuple(top.require_dataset("d", shape=(2,), dtype="f8").shape)))
    obs.append(("require-mismatch", ex(lambda: top.require_dataset("d", shape=(4,), dtype="f8"))[1]))
    obs.append(("has-data-class", top.get("d", getclass=True) is h5.Dataset))
    obs.append(("text-into-f8", ex(lambda: ds.__setitem__(slice(None), ["a", "b"]))[0],
                ex(lambda: ds.__setitem__(slice(None), "abc"))[0]))
    obs.append(("ds-parent", top["d"].parent.name, top["d"].name))
    f.flush()
    f.close()
    obs.append(("closed-mode", ex(lambda: f.mode)[1]))
    f2 = h5.File(h5.h5f.open(path, flags=h5.h5f.ACC_RDONLY, fapl=h5.h5p.create(h5.h5p.FILE_ACCESS)))
    obs.append(("ro-mode", f2.mode, list(f2["top"])))
    for nm, op in [("attr", lambda: f2["top"].attrs.__setitem__("x", 1)),
                   ("dellink", lambda: f2["top"].__delitem__("z")),
                   ("mkgroup", lambda: mk(f2["top"], "n")),
                   ("write", lambda: f2["top"]["d"].__setitem__(0, 3.0)),
                   ("resize", lambda: f2["top"]["d"].resize((9,))),
                   ("delattr", lambda: f2["top"].attrs.__delitem__("b")),
                   ("link", lambda: f2["top"].__setitem__("q", f2["top"]["a"]))]:
        obs.append(("ro", nm, ex(op)[0]))
    obs.append(("ro-unchanged", list(f2["top"]), sorted(f2["top"].attrs.keys())))
    f2.close()
    obs.append(("open-missing", ex(lambda: h5.h5f.open(path + b".nope", flags=h5.h5f.ACC_RDWR,
                                                       fapl=h5.h5p.create(h5.h5p.FILE_ACCESS)))[0]))
    return obs


OLD_PROP_FIELDS = ("value", "uncertainty", "reference", "filename", "encoder", "checksum")


def old_property_dtype(h5, value_kind):
    """compound type of a metadata property in NIX formats < 1.1.1; value_kind in int/float/str/bool"""
    if h5 is MODULE:
        vt = {"int": _np.dtype("int64"), "float": _np.dtype("float64"), "bool": _np.dtype("bool"),
              "str": string_dtype()}[value_kind]
        st = string_dtype()
        return CompoundDT([("value", vt), ("uncertainty", _np.dtype("float64")), ("reference", st),
                           ("filename", st), ("encoder", st), ("checksum", st)])
    vt = {"int": _np.int64, "float": _np.float64, "bool": _np.bool_, "str": h5.string_dtype()}[value_kind]
    st = h5.string_dtype()
    return _np.dtype([("value", vt), ("uncertainty", _np.float64), ("reference", st), ("filename", st),
                      ("encoder", st), ("checksum", st)])


def make_old_property(h5, parent, name, value_kind, rows):
    """create a compound property dataset (rows = tuples in OLD_PROP_FIELDS order) in `parent`"""
    dt = old_property_dtype(h5, value_kind)
    if h5 is MODULE:
        return parent.create_dataset(name, dtype=dt, data=[tuple(r) for r in rows])
    arr = _np.zeros(len(rows), dtype=dt)
    for i, r in enumerate(rows):
        arr[i] = tuple(r)
    return parent.create_dataset(name, data=arr)


def _txt(x):
    if isinstance(x, bytes):
        return x.decode("utf-8")
    if isinstance(x, (_np.generic,)):
        return x.item()
    return x


def _script_upgrade(h5, path):
    """the backend calls of nixio.cmd.upgrade (high-level File, compound datasets, absolute
    paths, field reads, hard links by assignment) - same script on h5py and on fakeh5"""
    obs = []

    def mk(parent, name):
        gcpl = h5.h5p.create(h5.h5p.GROUP_CREATE)
        gcpl.set_link_creation_order(h5.h5p.CRT_ORDER_TRACKED | h5.h5p.CRT_ORDER_INDEXED)
        return h5.Group(h5.h5g.create(parent.id, name.encode("utf-8"), gcpl=gcpl))

    def ex(fn):
        try:
            return ("ok", fn())
        except Exception as e:  # noqa
            return ("exc", type(e).__name__)

    if isinstance(path, bytes):
        path = path.decode()
    obs.append(("r-missing", ex(lambda: h5.File(path, mode="r"))[0]))
    with h5.File(path, mode="a") as f:
        f.attrs["version"] = (1, 1, 0)
        md = mk(f, "metadata")
        sec = mk(md, "s")
        props = mk(sec, "properties")
        make_old_property(h5, props, "p", "int", [(1, 0.5, "", "", "", ""), (2, 0.5, "", "", "", ""),
                                                  (3, 0.5, "", "", "", "")])
        make_old_property(h5, props, "q", "str", [("a", 0.0, "r1", "", "", ""), ("b", 0.25, "", "", "", "c")])
        make_old_property(h5, props, "e", "float", [])
        props["p"].attrs["unit"] = "V"
        plain = props.create_dataset("plain", data=[1.0, 2.0], dtype=float, chunks=True)
        obs.append(("plain", len(plain.dtype), bool(plain.dtype), plain.name, isinstance(plain, h5.Dataset)))
        sub = mk(mk(sec, "sections"), "sub")
        make_old_property(h5, mk(sub, "properties"), "z", "bool", [(True, 0.0, "", "", "", "")])
        data = mk(f, "data")
        blk = mk(data, "b")
        das = mk(blk, "data_arrays")
        da = mk(das, "da")
        da.attrs["entity_id"] = "ID-DA"
        dim = mk(mk(da, "dimensions"), "1")
        dim["ID-DA"] = da
        mk(data, "b2")
    obs.append(("closed-after-with", ex(lambda: f.attrs["version"])[0]))
    with h5.File(path, mode="r") as f:
        obs.append(("version", tuple(int(x) for x in f.attrs["version"]),
                    tuple(f.attrs["version"]) >= (1, 2, 1), tuple(f.attrs["version"]) >= (1, 1, 0),
                    f.attrs.get("id")))
        found = []

        def find(_, o):
            if isinstance(o, h5.Dataset) and len(o.dtype):
                found.append(o.name)
        f["metadata"].visititems(find)
        obs.append(("compound-found", found))
        obs.append(("ro-attr", ex(lambda: f.attrs.__setitem__("id", "x"))[0]))
        obs.append(("blocks", [b.name for b in f["data"].values()],
                    ["data_arrays" in b for b in f["data"].values()]))
        d = f["/data/b/data_arrays/da/dimensions/1"]
        obs.append(("alias", d.name, "ticks" not in d, "link" not in d, "ID-DA" in d,
                    d.parent.parent.name, d.parent.parent.attrs["entity_id"], d["ID-DA"].name))
    with h5.File(path, mode="a") as f:
        for pn in ("/metadata/s/properties/p", "/metadata/s/properties/q", "/metadata/s/properties/e",
                   "/metadata/s/sections/sub/properties/z"):
            prop = f[pn]
            unc, ref, chk = prop["uncertainty"], prop["reference"], prop["checksum"]
            values = prop["value"]
            obs.append(("fields", pn, [_txt(x) for x in values], [float(x) for x in unc],
                        [_txt(x) for x in ref], len(set(unc)), any(unc), any(ref), any(chk),
                        any(prop["filename"]), prop.attrs.get("unit"), prop.attrs.get("definition"),
                        len(values.dtype), len(prop)))
            obs.append(("mask", [float(x) for x in unc[unc != 0]], len(unc[unc > 0.3]), [bool(x) for x in unc == 0.5]))
            rows = prop[:]
            obs.append(("rows", len(rows), [_txt(r["value"]) for r in rows],
                        [float(r["uncertainty"]) for r in rows]))
            dt = values.dtype
            del f[pn]
            obs.append(("deleted", pn in f))
            new = f.create_dataset(pn, dtype=dt, data=values, chunks=True)
            new.attrs["name"] = pn.split("/")[-1]
            obs.append(("recreated", new.name, len(new.dtype), [_txt(x) for x in new[:]], tuple(new.shape),
                        isinstance(new, h5.Dataset)))
            if any(ref):
                r2 = f.create_dataset(pn + ".reference", dtype=h5.string_dtype(), data=ref)
                obs.append(("extra", r2.name, [_txt(x) for x in r2[:]]))
            if len(set(unc)) > 1:
                u2 = f.create_dataset(pn + ".uncertainty", dtype=float, data=unc)
                obs.append(("extra-unc", u2.name, [float(x) for x in u2[:]]))
            elif any(unc):
                new.attrs["uncertainty"] = unc[0]
                obs.append(("attr-unc", float(new.attrs["uncertainty"])))
        obs.append(("dup", ex(lambda: f.create_dataset("/metadata/s/properties/p", dtype=float, data=[1.0]))[0]))
        obs.append(("props-now", sorted(f["/metadata/s/properties"].keys())))
        dim = f["/data/b/data_arrays/da/dimensions/1"]
        parentda = dim.parent.parent
        link = mk(dim, "link")
        link["ID-DA"] = parentda
        link.attrs["index"] = [-1]
        del dim["ID-DA"]
        obs.append(("converted", sorted(dim.keys()), link["ID-DA"].name, [int(x) for x in link.attrs["index"]],
                    "ID-DA" in dim, dim["link"]["ID-DA"].attrs["entity_id"]))
        f.attrs["version"] = (1, 2, 1)
        f.attrs["id"] = "some-id"
    with h5.File(path, mode="r") as f:
        obs.append(("after", tuple(int(x) for x in f.attrs["version"]), f.attrs.get("id"),
                    tuple(f.attrs["version"]) >= (1, 2, 1)))
        found = []
        f["metadata"].visititems(lambda n, o: found.append(n)
                                 if isinstance(o, h5.Dataset) and len(o.dtype) else None)
        obs.append(("compound-left", found))
    return obs


def _script_copy(h5, path):
    """H5Ocopy semantics nixio's copy functions rely on"""
    obs = []

    def mk(parent, name):
        gcpl = h5.h5p.create(h5.h5p.GROUP_CREATE)
        gcpl.set_link_creation_order(h5.h5p.CRT_ORDER_TRACKED | h5.h5p.CRT_ORDER_INDEXED)
        return h5.Group(h5.h5g.create(parent.id, name.encode("utf-8"), gcpl=gcpl))

    def ex(fn):
        try:
            return ("ok", fn())
        except Exception as e:  # noqa
            return ("exc", type(e).__name__)

    def newfile(p):
        fcpl = h5.h5p.create(h5.h5p.FILE_CREATE)
        fcpl.set_link_creation_order(h5.h5p.CRT_ORDER_TRACKED | h5.h5p.CRT_ORDER_INDEXED)
        return h5.File(h5.h5f.create(p, flags=h5.h5f.ACC_TRUNC, fapl=h5.h5p.create(h5.h5p.FILE_ACCESS),
                                     fcpl=fcpl))
    f = newfile(path)
    g = newfile(path + b".second")
    src = mk(f, "src")
    blk = mk(src, "blk")
    blk.attrs["eid"] = "B"
    das = mk(blk, "das")
    a = mk(das, "a")
    a.attrs["eid"] = "A"
    a.require_dataset("data", shape=(3,), dtype="f8", chunks=True, maxshape=(None,))[:] = [1.0, 2.0, 3.0]
    mk(das, "x").attrs["eid"] = "X"
    t = mk(mk(blk, "tags"), "t")
    t.attrs["eid"] = "T"
    mk(t, "refs")["A"] = a
    mk(mk(a, "dims"), "1")["A"] = a                      # a cycle
    o = mk(mk(f, "outside"), "o")
    o.attrs["eid"] = "O"
    t["meta"] = o                                        # a link that leaves the hierarchy
    dst = mk(f, "dst")
    src.copy(source="blk", dest=dst, name="copy")
    c = dst["copy"]
    obs.append(("copy", list(c.keys()), list(c["das"].keys()), c.attrs["eid"], list(c["tags/t"].keys())))
    c["das/a"].attrs["mark"] = "m"
    obs.append(("sharing", c["tags/t/refs/A"].attrs.get("mark"), a.attrs.get("mark"),
                c["das/a/dims/1/A"].attrs.get("mark")))
    c["tags/t/meta"].attrs["mk"] = "1"
    obs.append(("outside-duplicated", o.attrs.get("mk"), c["tags/t/meta"].attrs.get("eid")))
    c["das/a/data"][0:1] = [9.0]
    obs.append(("data", [float(v) for v in c["das/a/data"][:]], [float(v) for v in a["data"][:]],
                tuple(c["das/a/data"].shape)))
    a.attrs["later"] = 1
    obs.append(("independent", c["das/a"].attrs.get("later")))
    obs.append(("dup", ex(lambda: src.copy(source="blk", dest=dst, name="copy"))[1], list(dst.keys())))
    src.copy(source="blk", dest=dst, name="sh", shallow=True)
    sh = dst["sh"]
    obs.append(("shallow", list(sh.keys()), [list(sh[k].keys()) for k in sh.keys()], sh.attrs["eid"]))
    a2 = mk(f, "a2")
    a2.attrs["n"] = 1
    a2.require_dataset("d", shape=(2,), dtype="i8")[:] = [5, 6]
    sg = mk(a2, "sg")
    sg.attrs["k"] = "v"
    mk(sg, "deep")
    f.copy(source="a2", dest=dst, name="a2s", shallow=True)
    z = dst["a2s"]
    obs.append(("shallow-members", list(z.keys()), [int(v) for v in z["d"][:]], z["sg"].attrs.get("k"),
                list(z["sg"].keys()), int(z.attrs["n"])))
    src.copy(source="blk", dest=g, name="xf")
    g["xf/das/a"].attrs["z"] = 1
    obs.append(("cross-file", list(g["xf/das"].keys()), g["xf/tags/t/refs/A"].attrs.get("eid"),
                int(g["xf/tags/t/refs/A"].attrs.get("z")), a.attrs.get("z")))
    src.copy(source="blk", dest=g)
    obs.append(("default-name", list(g.keys())))
    f.copy(source="src/blk/das/a", dest=dst, name="apath")
    obs.append(("path-source", list(dst["apath"].keys()), list(dst.keys())))
    obs.append(("missing-source", ex(lambda: src.copy(source="nope", dest=dst, name="q"))[1], "q" in dst))
    c.attrs.modify("eid", _np.bytes_("NEW"))
    obs.append(("modify-bytes", c.attrs["eid"], blk.attrs["eid"]))
    f.close()
    g.close()
    return obs


def _script_tables(h5, path):
    """1-d compound tables (data frames) and the order in which a selection is validated - same
    script on h5py and on fakeh5"""
    import h5py as _real_h5py
    obs = []

    def ex(fn):
        try:
            return ("ok", can(fn()))
        except Exception as e:  # noqa
            return ("exc", type(e).__name__)

    def can(v):
        if isinstance(v, _np.ndarray):
            return ("arr", tuple(v.shape), [can(x) for x in v.reshape(-1)] if v.dtype.fields is None or v.shape
                    else can(v[()]))
        if isinstance(v, _np.void):
            return tuple(can(x) for x in v)
        if isinstance(v, _np.generic):
            return v.item()
        if isinstance(v, bytes):
            return ("bytes", v.decode("utf-8"))
        if isinstance(v, _FArr):
            return ("arr", tuple(v.shape), [can(x) for x in _flat(v.tolist())])
        if isinstance(v, _FScalar):
            return v.value
        if isinstance(v, (list, tuple)):
            return [can(x) for x in v]
        return v

    def _flat(x):
        if isinstance(x, list):
            out = []
            for e in x:
                out.extend(_flat(e))
            return out
        return [x]

    if isinstance(path, bytes):
        path = path.decode()
    vl = _real_h5py.string_dtype(encoding="utf-8", length=None)
    dt = _np.dtype([("name", vl), ("id", _np.int64), ("x", _np.float64), ("ok", _np.bool_)])
    with h5.File(path, mode="a") as f:
        d = f.require_dataset("t", shape=(3,), dtype=dt, chunks=True, maxshape=(None,))
        obs.append(("fresh", ex(lambda: d[:]), d.shape, d.maxshape, len(d)))
        d[:] = _np.array([("a", 1, 1.5, True), ("b", 2, 2.5, False), ("c", 3, 3.5, True)], dtype=dt)
        obs.append(("all", ex(lambda: d[:]), ex(lambda: d[...]), ex(lambda: d[()])))
        obs.append(("names", d.dtype.names, [str(d.dtype.fields[n][0]) for n in d.dtype.names]))
        for key in (0, 2, -1, -3, 3, -4):
            obs.append(("int", key, ex(lambda: d[key])))
        for key in ([0, 2], [1], [-1], [-3, -1], [1, 0], [1, 1], [0, 3], [-4], [], [0, -1], [-1, 0]):
            obs.append(("list", key, ex(lambda: d[key])))
        obs.append(("range", ex(lambda: d[range(0, 2)]), ex(lambda: d[slice(1, None)]), ex(lambda: d[1:3]),
                    ex(lambda: d[::2]), ex(lambda: d[(slice(0, 2),)])))
        obs.append(("field", ex(lambda: d["id"]), ex(lambda: d["name"]), ex(lambda: d["zz"])))
        # writes: one row by list index (tuple, void), several rows, broadcast, refusals
        obs.append(("w-tuple", ex(lambda: d.__setitem__([2], ("z", 9, 9.5, False))), ex(lambda: d[:])))
        obs.append(("w-neg", ex(lambda: d.__setitem__([-1], ("y", 8, 8.5, True))), ex(lambda: d[:])))
        obs.append(("w-oob", ex(lambda: d.__setitem__([3], ("y", 8, 8.5, True))),
                    ex(lambda: d.__setitem__([-4], ("y", 8, 8.5, True))), ex(lambda: d[:])))
        obs.append(("w-two", ex(lambda: d.__setitem__([0, 1], [("m", 1, 1.0, False), ("n", 2, 2.0, True)])),
                    ex(lambda: d[:])))
        obs.append(("w-unsorted", ex(lambda: d.__setitem__([1, 0], [("m", 1, 1.0, False), ("n", 2, 2.0, True)])),
                    ex(lambda: d.__setitem__([0, 0], [("m", 1, 1.0, False), ("n", 2, 2.0, True)])),
                    ex(lambda: d[:])))
        obs.append(("w-ragged", ex(lambda: d.__setitem__([0], ("m", 1))),
                    ex(lambda: d.__setitem__([0, 0], [("m", 1), ("n", 2)])), ex(lambda: d[:])))
        obs.append(("w-text-in-number", ex(lambda: d.__setitem__([0], ("m", "q", 1.0, True))), ex(lambda: d[:])))
        row = d[1]
        row["id"] = 77
        obs.append(("w-void", ex(lambda: d.__setitem__(1, row)), ex(lambda: d.__setitem__([1], tuple(row))),
                    ex(lambda: d[:])))
        rows = d[[0]]
        rows["x"] = 0.25
        obs.append(("w-rows-array", ex(lambda: d.__setitem__([0], rows)), ex(lambda: d[:])))
        obs.append(("w-int-key", ex(lambda: d.__setitem__(2, ("k", 5, 5.5, True))), ex(lambda: d[2])))
        # grow / shrink (chunked)
        obs.append(("resize", ex(lambda: d.resize((5,))), d.shape, ex(lambda: d[:])))
        obs.append(("w-slice", ex(lambda: d.__setitem__((slice(3, 5),), _np.array(
            [("p", 5, 5.0, True), ("q", 6, 6.0, False)], dtype=dt))), ex(lambda: d[:])))
        obs.append(("shrink", ex(lambda: d.resize((2,))), d.shape, ex(lambda: d[:])))
        # a table made by assigning an array: contiguous, fixed size
        f["u"] = _np.array([("a", 1, 1.5, True), (b"b", 2, 2.5, False)], dtype=dt)
        u = f["u"]
        obs.append(("assigned", ex(lambda: u[:]), u.shape, u.maxshape, ex(lambda: u.resize((3,)))))
        obs.append(("assign-dup", ex(lambda: f.__setitem__("u", _np.zeros(1, dtype=dt)))))
        v = f.create_dataset("v", data=_np.array([("a", 1, 1.5, True)], dtype=dt))
        w = f.create_dataset("w", data=_np.array([("a", 1, 1.5, True)], dtype=dt), maxshape=(None,))
        obs.append(("created-from-array", ex(lambda: v[:]), v.maxshape, ex(lambda: v.resize((2,))), w.maxshape,
                    ex(lambda: w.resize((2,))), w.shape, ex(lambda: f.create_dataset("v", data=_np.zeros(1, dtype=dt)))))
        obs.append(("require-existing", ex(lambda: f.require_dataset("u", shape=(2,), dtype=dt, chunks=True,
                                                                     maxshape=(None,)).shape),
                    ex(lambda: f.require_dataset("u", shape=(3,), dtype=dt).shape)))
        del f["u"]
        obs.append(("deleted", "u" in f))
        obs.append(("object-column", ex(lambda: f.require_dataset("o", shape=(1,), dtype=_np.dtype(
            [("a", _np.int64), ("b", object)]), chunks=True, maxshape=(None,)).shape), "o" in f))
        odt = _np.dtype([("a", _np.int64), ("b", object)])
        obs.append(("object-column-from-array", ex(lambda: f.create_dataset("o2", data=_np.zeros(1, dtype=odt)).shape),
                    ex(lambda: f.__setitem__("o3", _np.zeros(1, dtype=odt))), "o2" in f, "o3" in f))
        e = f.require_dataset("e", shape=(0,), dtype=dt, chunks=True, maxshape=(None,))
        obs.append(("empty", ex(lambda: e[:]), ex(lambda: e[0]), ex(lambda: e[[0]]), ex(lambda: e[[]]), len(e)))
        # attrs.modify keeps the stored type
        g = f.require_dataset("attrs_here", shape=(1,), dtype=_np.float64)
        g.attrs["i"] = 1
        g.attrs["f"] = 0.5
        g.attrs["s"] = "abc"
        g.attrs["l"] = [1, 2]
        g.attrs["b"] = True
        for name, val in (("i", 0.25), ("i", 2.75), ("i", -1.5), ("f", 3), ("s", "xyzuvw"), ("s", ""), ("s", "\u00fc"),
                          ("i", "7"), ("i", "x"), ("s", 5), ("l", [1.5, 2.5]), ("l", [1, 2, 3]), ("b", 0.5),
                          ("f", "1.5"), ("i", True), ("i", None), ("zz", 1)):
            def seq(v):
                return list(_np.asarray(v).tolist()) if isinstance(v, (list, tuple, _np.ndarray)) else v
            obs.append(("modify", name, repr(val), ex(lambda: g.attrs.modify(name, val)),
                        ex(lambda: seq(g.attrs[name])), ex(lambda: _attr_kind(g.attrs[name]))))
        obs.append(("attr-id-shape", g.attrs.get_id("i").shape, g.attrs.get_id("s").shape,
                    tuple(g.attrs.get_id("l").shape), ex(lambda: g.attrs.get_id("nope"))[0]))
        # numeric arrays: the whole selection is validated before anything is read
        a = f.require_dataset("a", shape=(3, 4), dtype=_np.float64, chunks=True, maxshape=(None, None))
        a[...] = _np.arange(12.0).reshape(3, 4)
        for key in ((slice(4, 0), -5), (slice(0, 0), 4), (slice(None, None, -1),), (slice(None, None, 0), 0),
                    (Ellipsis, slice(None, None, 2)), (Ellipsis, 0, Ellipsis), (0, 0, 0), (slice(4, 0), 1),
                    (1, Ellipsis, slice(1, None, 2)), (slice(None, None, 5), slice(-1, None)), (-1, -1), (3, 0)):
            obs.append(("sel", repr(key), ex(lambda: a[key])))
        # n-d resize keeps every element in its place, new cells are zero
        obs.append(("resize-2d-grow", ex(lambda: a.resize((4, 5))), a.shape, ex(lambda: a[...])))
        obs.append(("resize-2d-shrink", ex(lambda: a.resize((2, 3))), a.shape, ex(lambda: a[...])))
        obs.append(("resize-2d-back", ex(lambda: a.resize((3, 4))), a.shape, ex(lambda: a[...])))
    return obs


def validate_against_h5py():
    import os
    import shutil
    import tempfile
    import h5py
    tmp = tempfile.mkdtemp(prefix="vf_fakeh5_")
    try:
        real = _script(h5py, os.path.join(tmp, "t.h5").encode())
    finally:
        shutil.rmtree(tmp, ignore_errors=True)
    reset()
    fake = _script(MODULE, b"/virtual/t.h5")
    reset()
    tmp = tempfile.mkdtemp(prefix="vf_fakeh5_")
    try:
        real = real + _script_upgrade(h5py, os.path.join(tmp, "u.h5"))
    finally:
        shutil.rmtree(tmp, ignore_errors=True)
    fake = fake + _script_upgrade(MODULE, "/virtual/u.h5")
    reset()
    tmp = tempfile.mkdtemp(prefix="vf_fakeh5_")
    try:
        real = real + _script_copy(h5py, os.path.join(tmp, "c.h5").encode())
    finally:
        shutil.rmtree(tmp, ignore_errors=True)
    fake = fake + _script_copy(MODULE, b"/virtual/c.h5")
    reset()
    tmp = tempfile.mkdtemp(prefix="vf_fakeh5_")
    try:
        real = real + _script_tables(h5py, os.path.join(tmp, "d.h5"))
    finally:
        shutil.rmtree(tmp, ignore_errors=True)
    fake = fake + _script_tables(MODULE, "/virtual/d.h5")
    reset()
    if len(real) != len(fake):
        raise AssertionError("fakeh5 script length differs")
    for r, k in zip(real, fake):
        if r != k:
            raise AssertionError("fakeh5 differs from h5py: real %r fake %r" % (r, k))
    return len(real)
