"""Models (the trusted base) used so that the real nixio code can be executed
symbolically.  Every model is validated differentially against the thing it
stands for on every run (see validate_* below); a mismatch is a harness error.

  slice_indices   pure-Python slice.indices (CPython PySlice_Unpack/AdjustIndices)
  Q               exact rational n/d, stands for Python float on the dyadic lattice
  NpShim          pure-Python stand-ins for the handful of NumPy calls made by the
                  kernels; injected as the module global `np` of ONE nixio module
                  at a time; everything not overridden is delegated to real NumPy
"""
import numbers
import operator

import numpy as _np


# --------------------------------------------------------------------------
# slice.indices
# --------------------------------------------------------------------------
def slice_indices(self, length):
    """Pure-Python model of slice.indices (Objects/sliceobject.c:
    _PySlice_GetLongIndices).  Works on mathematical integers."""
    step = self.step
    if step is None:
        step = 1
    else:
        if step == 0:
            raise ValueError("slice step cannot be zero")
    if length < 0:
        raise ValueError("length should not be negative")
    if step < 0:
        lower = -1
        upper = length - 1
    else:
        lower = 0
        upper = length
    start = self.start
    if start is None:
        start = upper if step < 0 else lower
    else:
        if start < 0:
            start = start + length
            if start < lower:
                start = lower
        elif start > upper:
            start = upper
    stop = self.stop
    if stop is None:
        stop = lower if step < 0 else upper
    else:
        if stop < 0:
            stop = stop + length
            if stop < lower:
                stop = lower
        elif stop > upper:
            stop = upper
    return (start, stop, step)


_REAL_SLICE_INDICES = slice.indices


def install_slice_model():
    # core_and_libs resets and re-creates all registrations when first imported,
    # so it has to be imported BEFORE our patch is registered.
    import crosshair.core_and_libs  # noqa
    from crosshair.core import register_patch, _PATCH_REGISTRATIONS
    if _REAL_SLICE_INDICES not in _PATCH_REGISTRATIONS:
        register_patch(_REAL_SLICE_INDICES, slice_indices)


# --------------------------------------------------------------------------
# str.format: error messages must not realise symbolic values
# --------------------------------------------------------------------------
_REAL_STR_FORMAT = str.format


def _has_symbolic(v, depth=0):
    """True if v is / contains a CrossHair symbolic value.  Evaluated with the
    tracer suspended: under tracing isinstance()/type() are patched and make a
    symbolic int look like a plain int."""
    from crosshair.tracers import NoTracing, is_tracing
    if is_tracing():
        with NoTracing():
            return _has_symbolic_raw(v, depth)
    return _has_symbolic_raw(v, depth)


def _has_symbolic_raw(v, depth=0):
    from crosshair.core import CrossHairValue
    if isinstance(v, CrossHairValue):
        return True
    if isinstance(v, Q):
        return True
    if depth > 3:
        return False
    if isinstance(v, (tuple, list)):
        for x in v:
            if _has_symbolic_raw(x, depth + 1):
                return True
        return False
    if isinstance(v, slice):
        return (_has_symbolic_raw(v.start, depth + 1) or _has_symbolic_raw(v.stop, depth + 1) or
                _has_symbolic_raw(v.step, depth + 1))
    return False


def quiet_format(self, *a, **kw):
    """Model of str.format used ONLY for message building: when an argument is
    symbolic the template itself is returned (the text of error messages is not
    part of any property); concrete calls go to the real str.format."""
    from crosshair.tracers import NoTracing
    with NoTracing():
        sym = _has_symbolic_raw(self) or any(_has_symbolic_raw(x) for x in a) or \
            any(_has_symbolic_raw(x) for x in kw.values())
        if not sym:
            return _REAL_STR_FORMAT(self, *a, **kw)
    return self if isinstance(self, str) else "<fmt>"


def install_quiet_format():
    import crosshair.core_and_libs  # noqa
    from crosshair.core import register_patch, _PATCH_REGISTRATIONS
    if _REAL_STR_FORMAT not in _PATCH_REGISTRATIONS:
        register_patch(_REAL_STR_FORMAT, quiet_format)
    else:
        _PATCH_REGISTRATIONS[_REAL_STR_FORMAT] = quiet_format


# ---------------------------------------------------------------------------
# "fresh process" state per explored path
# ---------------------------------------------------------------------------
# CrossHair explores all paths of an obligation in ONE process.  Module-level state of
# the analysed code (memo dicts, lru_cache, "last value" globals) would leak from one
# path into the next; CrossHair itself sidesteps lru_cache by never caching under
# tracing - which hides defects that consist of such a cache.  Here instead
#   * functools.lru_cache on functions of the analysed package is emulated faithfully
#     (unbounded memo keyed like the real one) and
#   * every mutable module / class level container and every plain-data global of the
#     package is put back to its import-time value at the start of every path,
# so that each path sees what a fresh interpreter would see, and a history inside one
# path (validate, change, validate again) sees the cache a real process would have.
_STATE = {"snap": None, "lru": {}}
_PLAIN = (type(None), bool, int, float, str, bytes, tuple, frozenset)


def _holders(prefix):
    import sys
    out = []
    for name, mod in list(sys.modules.items()):
        if mod is None or not (name == prefix or name.startswith(prefix + ".")) or ".test" in name:
            continue
        out.append(mod)
        for v in list(vars(mod).values()):
            if isinstance(v, type) and getattr(v, "__module__", None) == name:
                out.append(v)
    return out


def snapshot_process_state(prefix="nixio"):
    import copy
    from crosshair.tracers import NoTracing
    with NoTracing():
        conts, plains, names = [], [], {}
        for h in _holders(prefix):
            names[id(h)] = (h, set(vars(h).keys()))
            for k, v in list(vars(h).items()):
                if k.startswith("__"):
                    continue
                if isinstance(v, (dict, list, set)):
                    try:
                        conts.append((v, copy.deepcopy(v)))
                    except Exception:  # noqa
                        pass
                elif isinstance(v, _PLAIN) and not isinstance(h, type):
                    plains.append((h, k, v))
        _STATE["snap"] = (conts, plains, names)
        _STATE["prefix"] = prefix


def fresh_process_state():
    snap = _STATE["snap"]
    if snap is None:
        return True
    import copy
    from crosshair.tracers import NoTracing
    with NoTracing():
        _STATE["lru"].clear()
        conts, plains, names = snap
        for live, saved in conts:
            try:
                if live == saved:
                    continue
            except Exception:  # noqa
                pass
            fresh = copy.deepcopy(saved)
            if isinstance(live, list):
                live[:] = fresh
            else:
                live.clear()
                live.update(fresh)
        for h, k, v in plains:
            if vars(h).get(k, v) is not v:
                cur = vars(h).get(k)
                if isinstance(cur, _PLAIN):
                    setattr(h, k, v)
        for h, known in names.values():
            for k in [k for k in vars(h).keys() if k not in known]:
                v = vars(h)[k]
                if isinstance(v, _PLAIN + (dict, list, set)) and not k.startswith("__"):
                    try:
                        delattr(h, k)
                    except Exception:  # noqa
                        pass
    return True


def install_lru_model():
    """replace CrossHair's 'never cache' treatment of functools.lru_cache by a faithful memo for
    functions of the analysed package (others keep CrossHair's treatment)"""
    import crosshair.core_and_libs  # noqa
    from functools import _lru_cache_wrapper
    from crosshair.core import _PATCH_REGISTRATIONS

    def call(self, *a, **kw):
        if not isinstance(self, _lru_cache_wrapper):
            raise TypeError
        w = self.__wrapped__
        if not str(getattr(w, "__module__", "")).startswith(_STATE.get("prefix", "nixio")):
            return w(*a, **kw)
        memo = _STATE["lru"].setdefault(id(self), {})
        key = (a, tuple(sorted(kw.items())))
        try:
            hit = key in memo
        except TypeError:
            return w(*a, **kw)
        if hit:
            return memo[key]
        r = w(*a, **kw)
        memo[key] = r
        return r
    _PATCH_REGISTRATIONS[_lru_cache_wrapper.__call__] = call


def validate_slice_model():
    vals = [None] + list(range(-9, 10))
    steps = [None, 1, 2, 3, 4, -1, -2, -3, -4]
    n = 0
    for ln in range(0, 9):
        for a in vals:
            for b in vals:
                for c in steps:
                    s = slice(a, b, c)
                    if _REAL_SLICE_INDICES(s, ln) != slice_indices(s, ln):
                        raise AssertionError("slice model mismatch %r len %d" % (s, ln))
                    n += 1
    for bad in (slice(0, 1, 0),):
        try:
            slice_indices(bad, 3)
            raise AssertionError("slice model accepts zero step")
        except ValueError:
            pass
    return n


def py_range_of(sl, length):
    """Independent oracle: the index set NumPy/Python select for `sl` on an axis
    of `length` is range(*sl.indices(length)) (language definition)."""
    return range(*slice_indices(sl, length))


# --------------------------------------------------------------------------
# Q: exact rationals with (possibly symbolic) integer numerator and concrete
# positive integer denominator.
# --------------------------------------------------------------------------
class Q(numbers.Real):
    __slots__ = ("n", "d")

    def __init__(self, n, d=1):
        self.n = n
        self.d = d

    # opaque to CrossHair's realisation and to message formatting
    def __ch_deep_realize__(self, memo):
        return self

    def __ch_realize__(self):
        return self

    def __format__(self, spec):
        return "Q"

    def __repr__(self):
        return "Q"

    def __str__(self):
        return "Q"

    def __hash__(self):
        return 0

    @staticmethod
    def _coerce(o):
        if isinstance(o, Q):
            return o
        if isinstance(o, bool):
            return Q(int(o), 1)
        if isinstance(o, numbers.Integral):
            return Q(o, 1)
        if isinstance(o, float):
            # only exactly representable small dyadics/integers are allowed
            num, den = o.as_integer_ratio()
            return Q(num, den)
        if isinstance(o, _np.generic):
            return Q._coerce(o.item())
        return None

    def __add__(self, o):
        o = Q._coerce(o)
        if o is None:
            return NotImplemented
        if self.d == o.d:
            return Q(self.n + o.n, self.d)
        return Q(self.n * o.d + o.n * self.d, self.d * o.d)
    __radd__ = __add__

    def __sub__(self, o):
        o = Q._coerce(o)
        if o is None:
            return NotImplemented
        if self.d == o.d:
            return Q(self.n - o.n, self.d)
        return Q(self.n * o.d - o.n * self.d, self.d * o.d)

    def __rsub__(self, o):
        o = Q._coerce(o)
        if o is None:
            return NotImplemented
        return o.__sub__(self)

    def __mul__(self, o):
        o = Q._coerce(o)
        if o is None:
            return NotImplemented
        return Q(self.n * o.n, self.d * o.d)
    __rmul__ = __mul__

    def __truediv__(self, o):
        o = Q._coerce(o)
        if o is None:
            return NotImplemented
        # divisor numerators are concrete in every harness (sampling intervals)
        if o.n == 0:
            raise ZeroDivisionError("Q division by zero")
        if o.n < 0:
            return Q(-(self.n * o.d), self.d * (-o.n))
        return Q(self.n * o.d, self.d * o.n)

    def __rtruediv__(self, o):
        o = Q._coerce(o)
        if o is None:
            return NotImplemented
        return o.__truediv__(self)

    def __floordiv__(self, o):
        q = self.__truediv__(o)
        return q.n // q.d

    def __rfloordiv__(self, o):
        return Q._coerce(o).__floordiv__(self)

    def __mod__(self, o):
        o = Q._coerce(o)
        return self - o * (self // o)

    def __rmod__(self, o):
        return Q._coerce(o).__mod__(self)

    def __pow__(self, k):
        if isinstance(k, int) and not isinstance(k, bool) and k >= 0:
            r = Q(1, 1)
            for _ in range(k):
                r = r * self
            return r
        return NotImplemented

    def __rpow__(self, o):
        return NotImplemented

    def __neg__(self):
        return Q(-self.n, self.d)

    def __pos__(self):
        return self

    def __abs__(self):
        return Q(-self.n, self.d) if self.n < 0 else self

    def __eq__(self, o):
        o = Q._coerce(o)
        if o is None:
            return NotImplemented
        return True if self.n * o.d == o.n * self.d else False

    def __ne__(self, o):
        o = Q._coerce(o)
        if o is None:
            return NotImplemented
        return True if self.n * o.d != o.n * self.d else False

    def __lt__(self, o):
        o = Q._coerce(o)
        if o is None:
            return NotImplemented
        return True if self.n * o.d < o.n * self.d else False

    def __le__(self, o):
        o = Q._coerce(o)
        if o is None:
            return NotImplemented
        return True if self.n * o.d <= o.n * self.d else False

    def __gt__(self, o):
        o = Q._coerce(o)
        if o is None:
            return NotImplemented
        return True if self.n * o.d > o.n * self.d else False

    def __ge__(self, o):
        o = Q._coerce(o)
        if o is None:
            return NotImplemented
        return True if self.n * o.d >= o.n * self.d else False

    def __bool__(self):
        return True if self.n != 0 else False

    def __floor__(self):
        return self.n // self.d

    def __ceil__(self):
        return -((-self.n) // self.d)

    def __trunc__(self):
        return self.n // self.d if self.n >= 0 else -((-self.n) // self.d)

    def __int__(self):
        return self.__trunc__()

    def __round__(self, ndigits=None):
        # round-half-even, like float.__round__ and np.round
        fl = self.n // self.d
        r2 = 2 * (self.n - fl * self.d)  # 2*remainder, compare with d
        if r2 < self.d:
            return fl
        if r2 > self.d:
            return fl + 1
        return fl if fl % 2 == 0 else fl + 1

    def __float__(self):
        return int(self.n) / int(self.d)

    def is_integer(self):
        return True if self.n % self.d == 0 else False

    def as_float(self):
        return int(self.n) / int(self.d)


def q_isclose(a, b, rtol=1e-05, atol=1e-08):
    """np.isclose on the dyadic lattice: |a-b| <= atol + rtol*|b| evaluated in
    exact rationals with rtol=1/100000, atol=1/100000000 (the float constants
    differ from these rationals by < 1e-21 relative, far below the 2^-7 lattice
    gap -- see DESIGN lattice lemma)."""
    a = Q._coerce(a)
    b = Q._coerce(b)
    diff = abs(a - b)
    tol = Q(1, 100000000) + Q(1, 100000) * abs(b)
    return True if diff <= tol else False


# --------------------------------------------------------------------------
# Vec: tiny 1-d vector with the elementwise operations the kernels use
# --------------------------------------------------------------------------
class Vec:
    def __init__(self, items):
        self.items = list(items)

    def __len__(self):
        return len(self.items)

    def __iter__(self):
        return iter(self.items)

    def __getitem__(self, i):
        r = self.items[i]
        if isinstance(i, slice):
            return Vec(r)
        return r

    def __setitem__(self, i, v):
        self.items[i] = v

    @property
    def shape(self):
        return (len(self.items),)

    def _cmp(self, o, op):
        if isinstance(o, Vec):
            return Vec([op(a, b) for a, b in zip(self.items, o.items)])
        return Vec([op(a, o) for a in self.items])

    def __le__(self, o):
        return self._cmp(o, operator.le)

    def __lt__(self, o):
        return self._cmp(o, operator.lt)

    def __ge__(self, o):
        return self._cmp(o, operator.ge)

    def __gt__(self, o):
        return self._cmp(o, operator.gt)

    def __mul__(self, o):
        return self._cmp(o, operator.mul)
    __rmul__ = __mul__

    def __add__(self, o):
        return self._cmp(o, operator.add)
    __radd__ = __add__

    def __sub__(self, o):
        return self._cmp(o, operator.sub)


class IntVec(Vec):
    """a NumPy array of an INTEGER element type: what is assigned to an element is truncated towards zero
    (NumPy's conversion of a real number to an integer element; validated against NumPy)"""

    def __setitem__(self, i, v):
        if isinstance(v, bool) or isinstance(v, int):
            self.items[i] = v
            return
        if v >= 0:
            self.items[i] = v.__floor__()
        else:
            self.items[i] = -((-v).__floor__())

    def __getitem__(self, i):
        r = self.items[i]
        if isinstance(i, slice):
            return IntVec(r)
        return r


def _fake_array_items(x):
    """(items, is integer typed) of a 1-d array handed out by fakeh5, else None"""
    if isinstance(x, _np.ndarray) or not (hasattr(x, "tolist") and hasattr(x, "dtype")):
        return None
    items = x.tolist()
    if not isinstance(items, list) or any(isinstance(e, list) for e in items):
        return None
    dt = getattr(x.dtype, "dt", x.dtype)
    try:
        is_int = bool(_np.issubdtype(_np.dtype(dt), _np.integer))
    except Exception:  # noqa
        is_int = False
    return items, is_int


class NpShim:
    """Stand-in for the `np` global of one nixio module.  Only the functions the
    analysed kernels call are modelled; everything else goes to real NumPy."""

    def __init__(self):
        self._real = _np

    def __getattr__(self, name):
        return getattr(_np, name)

    @staticmethod
    def isclose(a, b, rtol=1e-05, atol=1e-08):
        if isinstance(a, Q) or isinstance(b, Q):
            return q_isclose(a, b)
        if not isinstance(a, (float, _np.ndarray, _np.generic)) and \
                not isinstance(b, (float, _np.ndarray, _np.generic)) and \
                isinstance(a, numbers.Integral) and isinstance(b, numbers.Integral):
            return q_isclose(a, b)     # (possibly symbolic) integers: exact
        return _np.isclose(a, b, rtol=rtol, atol=atol)

    @staticmethod
    def round(x, decimals=0):
        if isinstance(x, Q):
            return x.__round__()
        return _np.round(x, decimals)

    @staticmethod
    def floor(x):
        if isinstance(x, Q):
            return x.__floor__()
        if isinstance(x, int):
            return x
        return _np.floor(x)

    @staticmethod
    def array(x, *a, **kw):
        if isinstance(x, Vec):
            return type(x)(x.items)               # np.array copies
        if isinstance(x, (list, tuple)) and any(isinstance(e, Q) for e in x):
            return Vec(x)
        fa = _fake_array_items(x)
        if fa is not None and not a and not kw:
            # a row read from a (fake) dataset: the copy inherits its element type
            return IntVec(fa[0]) if fa[1] else Vec(fa[0])
        return _np.array(x, *a, **kw)

    @staticmethod
    def where(v):
        if isinstance(v, Vec):
            return (Vec([i for i, b in enumerate(v.items) if b]),)
        return _np.where(v)

    @staticmethod
    def diff(v):
        if isinstance(v, Vec) or (isinstance(v, (list, tuple)) and any(isinstance(e, Q) for e in v)):
            items = list(v)
            return Vec([items[i + 1] - items[i] for i in range(len(items) - 1)])
        return _np.diff(v)

    @staticmethod
    def any(v):
        if isinstance(v, Vec):
            for b in v.items:
                if b:
                    return True
            return False
        return _np.any(v)

    @staticmethod
    def all(v):
        if isinstance(v, Vec):
            for b in v.items:
                if not b:
                    return False
            return True
        if isinstance(v, (list, tuple)) and all(isinstance(b, bool) for b in v):
            for b in v:
                if not b:
                    return False
            return True
        return _np.all(v)

    @staticmethod
    def less_equal(a, b):
        if isinstance(a, (tuple, list)) and isinstance(b, (tuple, list)) and \
                not isinstance(a, _np.ndarray) and not isinstance(b, _np.ndarray):
            return [True if x <= y else False for x, y in zip(a, b)]
        return _np.less_equal(a, b)

    @staticmethod
    def arange(n):
        if isinstance(n, int):
            return Vec(range(n))
        return _np.arange(n)


def validate_npshim_and_q():
    """Differential validation of Q / NpShim against real floats / NumPy on the
    lattice the harnesses use."""
    import itertools
    shim = NpShim()
    n = 0
    dens = [1, 2, 8, 16]
    nums = list(range(-40, 41, 3)) + [-1, 0, 1]
    for d in dens:
        for a in nums:
            qa, fa = Q(a, d), a / d
            if shim.round(qa) != int(_np.round(fa)):
                raise AssertionError("round mismatch %s/%s" % (a, d))
            if shim.floor(qa) != int(_np.floor(fa)):
                raise AssertionError("floor mismatch %s/%s" % (a, d))
            if int(qa) != int(fa):
                raise AssertionError("int mismatch")
            n += 3
            for b in nums[::4]:
                for d2 in (1, 16):
                    qb, fb = Q(b, d2), b / d2
                    for op in (operator.add, operator.sub, operator.mul):
                        if float(op(qa, qb)) != op(fa, fb):
                            raise AssertionError("arith mismatch")
                    for op in (operator.lt, operator.le, operator.eq, operator.ge, operator.gt):
                        if op(qa, qb) != op(fa, fb):
                            raise AssertionError("cmp mismatch")
                    if bool(shim.isclose(qa, qb)) != bool(_np.isclose(fa, fb)):
                        raise AssertionError("isclose mismatch %r %r" % (fa, fb))
                    n += 9
    # integer-typed arrays truncate what is assigned to an element, float-typed ones keep it
    for d in dens:
        for a in nums:
            iv, fv = IntVec([7, 8]), Vec([Q(7), Q(8)])
            ia, fa_ = _np.array([7, 8]), _np.array([7.0, 8.0])
            iv[0] = Q(a, d)
            ia[0] = a / d
            fv[1] = Q(a, d)
            fa_[1] = a / d
            iv[1] += Q(a, d)
            ia[1] += _np.int64(0) if False else 0       # (in-place add of a float to an int array is refused by NumPy)
            if iv[0] != int(ia[0]) or float(fv[1]) != float(fa_[1]):
                raise AssertionError("IntVec / Vec element assignment differs from NumPy for %s/%s" % (a, d))
            n += 2
    for si in (0.125, 0.25, 0.5, 1, 2, 4, 8):
        for a in nums:
            q = Q(a, 16) / Q._coerce(float(si))
            if float(q) != (a / 16) / si:
                raise AssertionError("div mismatch")
            n += 1
    ticks = [Q(1, 2), Q(1, 2), Q(3, 1)]
    fl = [0.5, 0.5, 3.0]
    for p in (Q(0, 1), Q(1, 2), Q(2, 1), Q(3, 1), Q(4, 1)):
        a = shim.where(shim.array(ticks) <= p)[0]
        b = _np.where(_np.array(fl) <= float(p))[0]
        if list(a) != list(b):
            raise AssertionError("where mismatch")
        n += 1
    if bool(shim.any(shim.diff(ticks) < 0)) != bool(_np.any(_np.diff(fl) < 0)):
        raise AssertionError("diff/any mismatch")
    if list(shim.less_equal((1, 5), (2, 4))) != list(_np.less_equal((1, 5), (2, 4))):
        raise AssertionError("less_equal mismatch")
    return n
