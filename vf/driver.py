"""Property driver: runs every obligation of one property (CrossHair/z3 on the real
nixio code, one OS process per obligation, in parallel), the reachability twins,
replays counterexamples against the real code, matches known findings, writes
the evidence file and sets the exit code."""
import argparse
import ast
import concurrent.futures as cf
import importlib
import json
import os
import subprocess
import sys
import time

from . import EXIT_OK, EXIT_VIOLATION, EXIT_INCONCLUSIVE, EXIT_HARNESS
from .worker import MARK

ROOT = os.path.dirname(os.path.dirname(os.path.abspath(__file__)))
REPO = os.environ.get("VERIF_REPO", "/repo")
KF_FILE = os.path.join(ROOT, "known_findings.json")


def log(*a):
    print(*a, flush=True)


def run_worker(module, ob, mode, part, timeout, args=None, exclude=None):
    cmd = [sys.executable, "-m", "vf.worker", "--module", module, "--ob", ob, "--mode", mode,
           "--part", repr(part), "--timeout", str(timeout)]
    if args is not None:
        cmd += ["--args", repr(args)]
    if exclude:
        cmd += ["--exclude", ",".join(exclude)]
    env = dict(os.environ)
    env["PYTHONDONTWRITEBYTECODE"] = "1"
    env["PYTHONPATH"] = ROOT + os.pathsep + REPO
    env["PYTHONHASHSEED"] = "0"
    wall = timeout * 2.0 + 120
    t0 = time.time()
    try:
        p = subprocess.run(cmd, cwd=ROOT, env=env, stdout=subprocess.PIPE, stderr=subprocess.PIPE,
                           timeout=wall, text=True)
        out, err = p.stdout, p.stderr
    except subprocess.TimeoutExpired as e:
        return {"status": "unknown", "detail": "wall-clock limit %.0fs hit" % wall, "ob": ob,
                "mode": mode, "part": repr(part), "wall_s": round(time.time() - t0, 1)}
    for line in out.splitlines():
        if line.startswith(MARK):
            res = json.loads(line[len(MARK):])
            return res
    return {"status": "error", "detail": "worker produced no result (rc=%s): %s" %
            (p.returncode, (err or out)[-2000:]), "ob": ob, "mode": mode, "part": repr(part),
            "wall_s": round(time.time() - t0, 1)}


def resolve_function(dotted):
    """nixio.data_view.DataView._transform_coordinates -> object or None"""
    parts = dotted.split(".")
    for i in range(len(parts), 0, -1):
        try:
            obj = importlib.import_module(".".join(parts[:i]))
        except ImportError:
            continue
        try:
            for p in parts[i:]:
                obj = getattr(obj, p)
            return obj
        except AttributeError:
            return None
    return None


def load_known(prop):
    if not os.path.exists(KF_FILE):
        return [], []
    data = json.load(open(KF_FILE))
    kf = [k for k in data.get("known_findings", []) if k["property"] == prop]
    fixed = [k for k in data.get("fixed", []) if k.startswith("fixed: property=%s " % prop)]
    return kf, fixed


def kf_matches(kf, ob, part, args):
    if kf.get("obligation") not in (None, ob):
        return False
    env = dict(args)
    env["PART"] = part
    try:
        return bool(eval(kf["match"], {"__builtins__": __builtins__}, env))
    except Exception:
        return False


def main(argv=None):
    ap = argparse.ArgumentParser()
    ap.add_argument("prop")
    ap.add_argument("--tier", default=os.environ.get("VERIF_TIER", "quick"),
                    choices=["quick", "thorough"])
    ap.add_argument("--only", default=None, help="comma separated obligation names")
    ap.add_argument("--jobs", type=int, default=int(os.environ.get("VERIF_JOBS", "16")))
    ap.add_argument("--replay", default=None)
    ap.add_argument("--no-evidence", action="store_true")
    ns = ap.parse_args(argv)
    prop = ns.prop.upper()
    modname = "harness." + prop.lower()
    seed = int(os.environ.get("VERIF_SEED", "0"))
    t_start = time.time()
    sys.path.insert(0, ROOT)
    if REPO not in sys.path:
        sys.path.insert(1, REPO)
    mod = importlib.import_module(modname)

    if ns.replay:
        rp = json.load(open(ns.replay))
        res = run_worker(modname, rp["obligation"], "concrete", ast.literal_eval(rp["part"]), 60,
                         args=rp["args"])
        log(json.dumps(res, indent=1, default=repr))
        bad = (res.get("replay") or {}).get("violated")
        if bad is None:
            bad = res.get("post_ok") is False
        if bad:
            log("VIOLATION property=%s replay=%s" % (prop, ns.replay))
            return EXIT_VIOLATION
        return EXIT_OK

    obs = [o for o in mod.OBLIGATIONS if ns.tier in o.tiers]
    if ns.only:
        names = set(ns.only.split(","))
        obs = [o for o in obs if o.name in names]
    harness_errors = []
    inconclusive = []
    violations = []
    known_hits = []

    # ---- anchored functions must exist in the current tree -------------------
    for o in obs:
        for fn in o.functions:
            if resolve_function(fn) is None:
                harness_errors.append("anchored function %s (obligation %s) not found in /repo"
                                      % (fn, o.name))

    # ---- model validation -----------------------------------------------------
    validation = {}
    if hasattr(mod, "validate") and not ns.only:
        try:
            validation = mod.validate() or {}
            log("[%s] model validation ok: %s" % (prop, json.dumps(validation, default=repr)))
        except Exception as e:  # noqa
            import traceback
            harness_errors.append("model validation failed: %s" % traceback.format_exc()[-1500:])

    kfs, fixed = load_known(prop)

    # ---- run obligations ---------------------------------------------------------
    jobs = []
    for o in obs:
        for part in o.parts(ns.tier):
            jobs.append((o, part, "main"))
            if o.twin:
                jobs.append((o, part, "twin"))
    results = {}
    log("[%s] tier=%s obligations=%d jobs=%d (parallel %d)" % (prop, ns.tier, len(obs), len(jobs),
                                                            ns.jobs))

    def do(job):
        o, part, mode = job
        budget = o.budget(ns.tier)
        if mode == "twin":
            budget = min(budget, 120)
        return job, run_worker(modname, o.name, mode, part, budget)

    # longest budgets first
    jobs.sort(key=lambda j: -(j[0].budget(ns.tier) if j[2] == "main" else 1))
    with cf.ThreadPoolExecutor(max_workers=ns.jobs) as ex:
        for job, res in ex.map(do, jobs):
            o, part, mode = job
            results[(o.name, repr(part), mode)] = res
            log("  %-28s part=%-18s %-5s -> %-9s paths=%s z3=%s/%.1fs wall=%ss" % (
                o.name, repr(part), mode, res.get("status"), res.get("paths"),
                res.get("z3_checks"), res.get("z3_time_s") or 0.0, res.get("wall_s")))

    # ---- interpret ------------------------------------------------------------
    ob_records = []
    samples = []
    entered_all = set()
    n_sub = n_discharged = n_hunt = 0
    tot_paths = tot_checks = 0
    tot_z3 = 0.0
    replay_dir = os.path.join(ROOT, "replays", prop)
    nrep = 0
    for o in obs:
        for part in o.parts(ns.tier):
            key = (o.name, repr(part))
            main_res = results[key + ("main",)]
            twin_res = results.get(key + ("twin",))
            rec = {"obligation": o.name, "part": repr(part), "hunt": o.hunt,
                   "budget_cpu_s": o.budget(ns.tier), "status": main_res.get("status"),
                   "bounds": main_res.get("pre"), "asserts": main_res.get("post"),
                   "paths": main_res.get("paths"), "z3_checks": main_res.get("z3_checks"),
                   "z3_time_s": main_res.get("z3_time_s"), "wall_s": main_res.get("wall_s"),
                   "functions": list(o.functions), "outside": o.outside}
            tot_paths += main_res.get("paths") or 0
            tot_checks += main_res.get("z3_checks") or 0
            tot_z3 += main_res.get("z3_time_s") or 0.0
            if o.hunt:
                n_hunt += 1
            else:
                n_sub += 1
            # -- twin
            if twin_res is not None:
                tst = twin_res.get("status")
                rec["twin"] = tst
                if tst == "refuted" and twin_res.get("counterexamples"):
                    sargs = twin_res["counterexamples"][0]
                    cres = run_worker(modname, o.name, "concrete", part, 60, args=sargs)
                    if cres.get("pre_ok"):
                        entered = cres.get("entered") or []
                        entered_all.update(entered)
                        rec["sample_input"] = sargs
                        rec["entered"] = entered
                        if len(samples) < 12:
                            samples.append({"obligation": o.name, "part": repr(part), "input": sargs,
                                            "holds": cres.get("post_ok")})
                        missing = [f for f in o.functions if f not in entered]
                        # a single sample need not enter every listed function; only
                        # complain if NONE of them is entered (harness not driving the code)
                        if o.functions and len(missing) == len(o.functions):
                            harness_errors.append("obligation %s part %r: sample run entered none "
                                                  "of the anchored functions" % (o.name, part))
                    else:
                        harness_errors.append("twin sample of %s part %r does not satisfy the "
                                              "preconditions concretely: %r" % (o.name, part, cres))
                elif tst in ("confirmed", "pre_unsat"):
                    harness_errors.append("vacuous harness: reachability twin of %s part %r is %s"
                                          % (o.name, part, tst))
                elif not o.hunt:
                    # twin inconclusive: cannot show non-vacuity
                    inconclusive.append("twin of %s part %r: %s %s" % (o.name, part, tst,
                                                                      twin_res.get("detail", "")))
            # -- main
            st = main_res.get("status")
            excluded = []
            rounds = 0
            while st == "refuted" and rounds < 6:
                rounds += 1
                cexs = main_res.get("counterexamples") or []
                if not cexs:
                    harness_errors.append("%s part %r refuted without a captured counterexample: %s"
                                          % (o.name, part, main_res.get("conditions")))
                    break
                cargs = cexs[0]
                cres = run_worker(modname, o.name, "concrete", part, 120, args=cargs)
                rec.setdefault("counterexamples", []).append({"args": cargs, "concrete": cres})
                if not cres.get("pre_ok") or cres.get("post_ok") is not False:
                    harness_errors.append("counterexample of %s part %r does not reproduce in plain "
                                          "CPython: args=%r result=%r" % (o.name, part, cargs, cres))
                    break
                rp = cres.get("replay")
                if o.replay is not None:
                    if rp is None or rp.get("violated") is None:
                        harness_errors.append("real-stack replay of %s part %r not decisive: %r"
                                              % (o.name, part, rp))
                        break
                    if not rp["violated"]:
                        harness_errors.append("counterexample of %s part %r is NOT reproduced by the "
                                              "real stack (model/encoding wrong): args=%r replay=%r"
                                              % (o.name, part, cargs, rp))
                        break
                hit = [k for k in kfs if kf_matches(k, o.name, part, cargs)]
                if hit:
                    k = hit[0]
                    if k["id"] not in [h["id"] for h in known_hits]:
                        known_hits.append(k)
                        log("KNOWN-FINDING: property=%s %s" % (prop, k["description"]))
                    if k["id"] in excluded:
                        harness_errors.append("known finding %s re-reported despite exclusion" % k["id"])
                        break
                    excluded.append(k["id"])
                    main_res = run_worker(modname, o.name, "main", part, o.budget(ns.tier),
                                          exclude=excluded)
                    st = main_res.get("status")
                    rec["status_after_excluding_known"] = st
                    tot_paths += main_res.get("paths") or 0
                    tot_checks += main_res.get("z3_checks") or 0
                    tot_z3 += main_res.get("z3_time_s") or 0.0
                    continue
                # a new, reproducing violation
                os.makedirs(replay_dir, exist_ok=True)
                nrep += 1
                path = os.path.join(replay_dir, "%s-%d.json" % (o.name, nrep))
                json.dump({"property": prop, "obligation": o.name, "part": repr(part), "args": cargs,
                           "messages": main_res.get("conditions"), "concrete": cres},
                          open(path, "w"), indent=1, default=repr)
                violations.append({"obligation": o.name, "part": repr(part), "args": cargs,
                                   "replay": path})
                log("VIOLATION property=%s replay=%s" % (prop, path))
                log("    obligation=%s part=%r args=%r" % (o.name, part, cargs))
                log("    %s" % (main_res.get("conditions") or [{}])[0].get("messages"))
                break
            rec["final_status"] = st
            if st == "confirmed":
                if not o.hunt:
                    n_discharged += 1
            elif st == "refuted":
                pass
            elif st == "error":
                harness_errors.append("%s part %r: %s" % (o.name, part, main_res.get("detail")))
            else:
                if not o.hunt:
                    inconclusive.append("%s part %r: %s %s" % (o.name, part, st,
                                                              main_res.get("detail", "") or
                                                              main_res.get("conditions")))
            ob_records.append(rec)

    wall = time.time() - t_start
    code = EXIT_OK
    if violations:
        code = EXIT_VIOLATION
    elif harness_errors:
        code = EXIT_HARNESS
    elif inconclusive:
        code = EXIT_INCONCLUSIVE

    listed_fns = sorted({f for o in obs for f in o.functions})
    explanation = (
        "Bounded symbolic execution of the real nixio functions (CrossHair 0.0.110 tracing "
        "/repo's working tree, z3 deciding every branch condition): %d obligations (after "
        "partitioning), %d confirmed over all paths, %d bug-hunting obligations (no coverage "
        "claimed), %d paths explored, %d z3 check() calls, %.1f s solver time. A confirmed "
        "obligation holds for EVERY input satisfying its 'bounds' lines (integers are "
        "mathematical, i.e. unbounded unless a bound says otherwise); nothing is claimed outside "
        "them. Each obligation has a reachability twin (postcondition False) that must be "
        "refuted; every counterexample is re-run in plain CPython and replayed through the "
        "public API on a real HDF5 file before it is reported." % (
            n_sub, n_discharged, n_hunt, tot_paths, tot_checks, tot_z3))
    evidence = {
        "property_id": prop, "tier": ns.tier, "seed": seed, "level": "other",
        "coverage": {
            "explanation": explanation,
            "obligations": n_sub, "discharged": n_discharged,
            "evaluations": tot_paths,
            "distinct_nontrivial": n_discharged,
            "rule": "evaluations = execution paths explored symbolically (each path's branch "
                    "conditions decided by z3); distinct_nontrivial = obligations confirmed over "
                    "all paths whose reachability twin was refuted (non-vacuous)",
            "samples": samples or [{"note": "no twin sample available"}],
            "exhaustive": bool(n_sub and n_discharged == n_sub and not violations),
            "checker_cmd": "./check %s --tier %s" % (prop, ns.tier),
            "trusted_base": list(getattr(mod, "TRUSTED", [])) + [
                "CrossHair 0.0.110 symbolic semantics of Python", "z3 %s" % _z3_version(),
                "models in /verif/vf (validated differentially on every run)"],
            "functions_encoded": listed_fns,
            "functions_entered_in_sample_runs": sorted(entered_all),
            "queries_discharged": tot_checks, "solver_time_s": round(tot_z3, 2),
            "paths": tot_paths,
            "model_validation": validation,
            "obligation_details": ob_records,
            "known_findings_reported": [k["id"] for k in known_hits],
            "fixed_findings": fixed,
            "inconclusive": inconclusive, "harness_errors": harness_errors,
            "violations_detail": violations,
        },
        "assumptions": list(getattr(mod, "ASSUMPTIONS", [])),
        "wall_s": round(wall, 1),
        "violations": len(violations),
    }
    if not ns.no_evidence and not ns.only:
        os.makedirs(os.path.join(ROOT, "evidence"), exist_ok=True)
        with open(os.path.join(ROOT, "evidence", "%s.json" % prop), "w") as fh:
            json.dump(evidence, fh, indent=1, default=repr)
    for h in harness_errors:
        log("HARNESS-ERROR: %s" % h)
    for i in inconclusive:
        log("INCONCLUSIVE: %s" % i)
    log("[%s] tier=%s obligations=%d discharged=%d violations=%d known=%d inconclusive=%d "
        "harness_errors=%d paths=%d z3_checks=%d solver=%.1fs wall=%.0fs -> exit %d" % (
            prop, ns.tier, n_sub, n_discharged, len(violations), len(known_hits), len(inconclusive),
            len(harness_errors), tot_paths, tot_checks, tot_z3, wall, code))
    return code


def _z3_version():
    try:
        import z3
        return z3.get_version_string()
    except Exception:
        return "?"


if __name__ == "__main__":
    sys.exit(main())
