"""Run ONE obligation in this process and print a machine-readable result.

modes
  main      CrossHair analysis of the obligation's contract (symbolic execution of
            the real nixio code reached from the harness function, z3 decides
            every branch)
  twin      reachability twin: same body and preconditions, postcondition False;
            must be REFUTED, its counterexample is a concrete input satisfying the
            preconditions (-> evidence sample, nixio functions entered)
  concrete  plain CPython run of the harness function on given arguments (no
            tracing): evaluates pre/post, records nixio functions entered, and
            runs the obligation's real-stack replay if it has one
"""
import argparse
import ast
import importlib
import json
import os
import sys
import time
import traceback

MARK = "@@VF-RESULT@@ "


def _emit(obj):
    sys.stdout.write(MARK + json.dumps(obj, default=repr) + "\n")
    sys.stdout.flush()


def _find_ob(mod, name):
    for ob in mod.OBLIGATIONS:
        if ob.name == name:
            return ob
    raise KeyError(name)


def _plain(v):
    """Turn realised counterexample values into literal-friendly builtins."""
    if isinstance(v, bool) or v is None:
        return v
    if isinstance(v, int):
        return int(v)
    if isinstance(v, float):
        return float(v)
    if isinstance(v, str):
        return str(v)
    if isinstance(v, (bytes, bytearray)):
        return bytes(v)
    if isinstance(v, tuple):
        return tuple(_plain(x) for x in v)
    if isinstance(v, list):
        return [_plain(x) for x in v]
    if isinstance(v, (set, frozenset)):
        return sorted((_plain(x) for x in v), key=repr)
    if isinstance(v, dict):
        return {_plain(k): _plain(x) for k, x in v.items()}
    return repr(v)


def _exclusion_pre(exclude_ids, part):
    """Known findings listed in /verif/known_findings.json are excluded from the
    input space (as an extra precondition) so that any OTHER violation of the
    same obligation is still found."""
    root = os.path.dirname(os.path.dirname(os.path.abspath(__file__)))
    data = json.load(open(os.path.join(root, "known_findings.json")))
    exprs = [k["match"] for k in data.get("known_findings", []) if k["id"] in exclude_ids]
    codes = [compile(e, "<known-finding>", "eval") for e in exprs]

    def evaluate(bindings):
        env = dict(bindings)
        env["PART"] = part
        for c in codes:
            if eval(c, {"__builtins__": __builtins__}, env):
                return False
        return True
    return evaluate, " and ".join("not (%s)" % e for e in exprs)


def _custom(ob):
    r = ob.custom()
    st = {"holds": "confirmed", "violated": "refuted"}.get(r.get("status"), "unknown")
    out = {"status": st, "conditions": [{"post": "custom", "status": st,
                                         "messages": [json.dumps(r, default=repr)[:1500]]}],
           "pre": r.get("bounds", []), "post": r.get("asserts", []),
           "counterexamples": [r["counterexample"]] if r.get("counterexample") else [],
           "paths": 0, "z3_checks": r.get("queries", 0), "z3_time_s": r.get("solver_time_s", 0.0),
           "custom": r}
    if st == "unknown":
        out["detail"] = r.get("reason")
    return out


def _analyze(mod, ob, mode, timeout, exclude=()):
    if ob.custom is not None:
        return _custom(ob)
    import collections
    import z3
    from crosshair.core_and_libs import analyze_function, run_checkables  # noqa
    from crosshair.core import ConditionCheckable
    from crosshair.condition_parser import ConditionExpr, POSTCONDITION, default_counterexample
    from crosshair.options import AnalysisOptionSet
    from crosshair.statespace import MessageType
    from dataclasses import replace

    # No "short-circuiting" of callees that happen to carry a contract-like
    # docstring: every call is executed, nothing is abstracted to an
    # uninterpreted return value.
    import crosshair.core as _core
    _core.ShortCircuitingContext.make_interceptor = lambda self, original: original
    # No enforcement of callee contracts either: a callee whose docstring happens to
    # carry (or, for harness helpers, does carry) a contract would have its failing
    # postcondition turned into an ignored path of the caller.
    import crosshair.enforce as _enf
    _orig_trace_call = _enf.EnforcedConditions.trace_call

    def _trace_call(self, frame, fn, binding_target):
        if isinstance(fn, type):
            return _orig_trace_call(self, frame, fn, binding_target)
        return None
    _enf.EnforcedConditions.trace_call = _trace_call

    from . import models
    models.install_lru_model()
    models.snapshot_process_state()

    stats = {"z3_checks": 0, "z3_time": 0.0}
    orig_check = z3.Solver.check

    def counting_check(self, *a):
        t0 = time.perf_counter()
        try:
            return orig_check(self, *a)
        finally:
            stats["z3_checks"] += 1
            stats["z3_time"] += time.perf_counter() - t0

    z3.Solver.check = counting_check

    captured = []

    def maker(args, retval, overrides):
        try:
            captured.append({k: _plain(v) for k, v in args.arguments.items()})
        except BaseException:  # noqa
            captured.append(None)
        return default_counterexample(ob.fn.__name__, args, retval, overrides)

    opts = AnalysisOptionSet(per_condition_timeout=float(timeout),
                             max_uninteresting_iterations=sys.maxsize)
    checkables = analyze_function(ob.fn, opts)
    if not checkables:
        return {"status": "error", "detail": "no contract found on %s" % ob.fn.__name__}
    results = []
    worst = "confirmed"
    order = ["confirmed", "unknown", "pre_unsat", "refuted", "error"]
    paths = 0
    pre_src = []
    post_src = []
    for chk in checkables:
        if not isinstance(chk, ConditionCheckable):
            msgs = list(chk.analyze())
            return {"status": "error", "detail": "contract syntax: %s" % [m.message for m in msgs]}
        cond = chk.conditions
        pre_src = [p.expr_source for p in cond.pre]
        post_src.append(cond.post[0].expr_source)
        if mode == "twin":
            p0 = cond.post[0]
            cond = replace(cond, post=[ConditionExpr(POSTCONDITION, lambda _b: False,
                                                     p0.filename, p0.line, "False")])
        # every path starts from the module state of a fresh interpreter (vf.models)
        from crosshair.condition_parser import PRECONDITION as _PRE
        p0 = cond.post[0]
        cond = replace(cond, pre=[ConditionExpr(_PRE, lambda _b: models.fresh_process_state(), p0.filename,
                                                p0.line, "True")] + list(cond.pre))
        if exclude:
            from crosshair.condition_parser import PRECONDITION
            ev, src = _exclusion_pre(exclude, mod.PART)
            p0 = cond.post[0]
            cond = replace(cond, pre=list(cond.pre) + [ConditionExpr(PRECONDITION, ev, p0.filename,
                                                                      p0.line, src)])
            pre_src = pre_src + [src]
        cond = replace(cond, counterexample_description_maker=maker)
        chk.options.stats = collections.Counter()
        chk = ConditionCheckable(chk.ctxfn, chk.options, cond)
        t0 = time.process_time()
        msgs = list(chk.analyze())
        cpu = time.process_time() - t0
        paths += chk.options.stats.get("num_paths", 0) if getattr(chk.options, "stats", None) else 0
        st = "unknown"
        texts = []
        for m in msgs:
            texts.append("%s: %s" % (m.state.value, m.message))
            if m.state == MessageType.CONFIRMED:
                st = "confirmed"
            elif m.state == MessageType.CANNOT_CONFIRM:
                st = "unknown"
            elif m.state == MessageType.PRE_UNSAT:
                st = "pre_unsat"
            elif m.state in (MessageType.POST_FAIL, MessageType.POST_ERR, MessageType.EXEC_ERR):
                st = "refuted"
            elif m.state == MessageType.SYNTAX_ERR:
                st = "error"
        # a refutation message takes precedence over pre_unsat within the same run
        if any(t.startswith(("post_fail", "post_err", "exec_err")) for t in texts):
            st = "refuted"
        results.append({"post": cond.post[0].expr_source, "status": st, "messages": texts,
                        "cpu_s": round(cpu, 3)})
        if order.index(st) > order.index(worst):
            worst = st
        if mode == "twin":
            break  # one twin per obligation is enough
    return {"status": worst, "conditions": results, "pre": pre_src, "post": post_src,
            "counterexamples": [c for c in captured if c is not None],
            "paths": paths, "z3_checks": stats["z3_checks"],
            "z3_time_s": round(stats["z3_time"], 3)}


def _concrete(mod, ob, args):
    """Plain CPython evaluation of pre / body / post on concrete args; collects
    the nixio functions entered and runs the real-stack replay."""
    from crosshair.condition_parser import Pep316Parser
    from crosshair.fnutil import FunctionInfo
    parser = Pep316Parser()
    cond = parser.get_fn_conditions(FunctionInfo.from_fn(ob.fn))
    entered = set()

    def prof(frame, event, arg):
        if event == "call":
            fn = frame.f_code.co_filename
            if "/nixio/" in fn and "/nixio/test/" not in fn:
                modname = fn.split("/nixio/", 1)[1][:-3].replace("/", ".")
                qn = getattr(frame.f_code, "co_qualname", frame.f_code.co_name)
                entered.add("nixio.%s.%s" % (modname, qn))

    out = {"pre_ok": None, "post_ok": None, "exception": None}
    lcls = dict(args)
    try:
        pre_ok = all(bool(p.evaluate(lcls)) for p in cond.pre if p.evaluate)
    except Exception as e:  # noqa
        pre_ok = False
        out["exception"] = "pre: %r" % (e,)
    out["pre_ok"] = pre_ok
    if pre_ok:
        from crosshair.util import IgnoreAttempt
        sys.setprofile(prof)
        ignored = False
        try:
            ret = ob.fn(**args)
            exc = None
        except IgnoreAttempt:
            ret = None
            exc = None
            ignored = True
        except Exception as e:  # noqa
            ret = None
            exc = e
        finally:
            sys.setprofile(None)
        if ignored:
            out["pre_ok"] = pre_ok = False
            out["exception"] = "assume() not met"
        elif exc is not None:
            if cond.raises and isinstance(exc, tuple(cond.raises)):
                out["post_ok"] = True   # declared exception: path is ignored by CrossHair
                out["exception"] = "declared: %r" % (exc,)
            else:
                out["post_ok"] = False
                out["exception"] = "".join(traceback.format_exception_only(type(exc), exc)).strip()
        else:
            lc = dict(args)
            lc.update({"__return__": ret, "_": ret})
            oks = []
            for p in cond.post:
                try:
                    oks.append(bool(p.evaluate(lc)))
                except Exception as e:  # noqa
                    oks.append(False)
                    out["exception"] = "post: %r" % (e,)
            out["post_ok"] = all(oks)
            out["ret"] = _plain(ret) if not isinstance(ret, (bool, int, type(None))) else ret
    out["entered"] = sorted(entered)
    if ob.replay is not None and pre_ok:
        try:
            violated, detail = ob.replay(dict(args))
            out["replay"] = {"violated": bool(violated), "detail": detail}
        except Exception as e:  # noqa
            out["replay"] = {"violated": None, "detail": {"replay_error": traceback.format_exc()}}
    return out


def main(argv=None):
    ap = argparse.ArgumentParser()
    ap.add_argument("--module", required=True)
    ap.add_argument("--ob", required=True)
    ap.add_argument("--mode", choices=["main", "twin", "concrete"], default="main")
    ap.add_argument("--part", default="None")
    ap.add_argument("--timeout", type=float, default=60.0)
    ap.add_argument("--args", default=None)
    ap.add_argument("--exclude", default="")
    ns = ap.parse_args(argv)
    t0 = time.time()
    try:
        sys.setrecursionlimit(10000)
        mod = importlib.import_module(ns.module)
        ob = _find_ob(mod, ns.ob)
        part = ast.literal_eval(ns.part)
        mod.PART = part
        if hasattr(mod, "setup"):
            mod.setup()
        if ns.mode == "concrete":
            args = ast.literal_eval(ns.args)
            res = _concrete(mod, ob, args)
        else:
            res = _analyze(mod, ob, ns.mode, ns.timeout, [x for x in ns.exclude.split(',') if x])
    except BaseException as e:  # noqa
        res = {"status": "error", "detail": traceback.format_exc()}
    res["wall_s"] = round(time.time() - t0, 3)
    res["ob"] = ns.ob
    res["mode"] = ns.mode
    res["part"] = ns.part
    _emit(res)


if __name__ == "__main__":
    main()
