"""Environment stubs shared by the fakeh5-based harnesses (all installed by
assigning module globals inside the analysis process; nothing in /repo changes):

  * backend: vf.fakeh5 instead of h5py for nixio.hdf5.h5group / nixio.file, a
    virtual file table instead of os.path.exists;
  * ids: util.create_id() = deterministic counter (valid UUID text) - uuid4 is
    randomness, outside every claim;
  * clock: util.now_int() = scripted instants (CLOCK list, consumed one per
    call; the last one repeats) so that time can be symbolic;
  * optionally identity time_to_str / str_to_time (the text conversion is decided
    separately by the SMT encoding of C19a).

begin() must be called at the start of every obligation body: CrossHair re-runs
the body once per path and the stubs hold global state.
"""
from . import fakeh5

_STATE = {"id": 0, "clock": [1000], "tick": 0, "ident_time": False}


def _create_id():
    _STATE["id"] += 1
    return "00000000-0000-4000-8000-%012d" % _STATE["id"]


def _now_int():
    c = _STATE["clock"]
    i = _STATE["tick"]
    _STATE["tick"] = i + 1
    return c[i] if i < len(c) else c[-1]


def _ident(x):
    return x


_REAL = {}


def install(ident_time=False):
    import nixio.util as U
    import nixio.util.util as UU
    fakeh5.install()
    if not _REAL:
        _REAL.update(create_id=UU.create_id, now_int=UU.now_int, time_to_str=UU.time_to_str,
                     str_to_time=UU.str_to_time)
    for m in (U, UU):
        m.create_id = _create_id
        m.now_int = _now_int
        if ident_time:
            m.time_to_str = _ident
            m.str_to_time = _ident
    _STATE["ident_time"] = ident_time


def uninstall():
    import nixio.util as U
    import nixio.util.util as UU
    fakeh5.uninstall()
    for m in (U, UU):
        for k, v in _REAL.items():
            setattr(m, k, v)


def begin(clock=None):
    """reset all global stub state (call first in every obligation body)"""
    fakeh5.reset()
    _STATE["id"] = 0
    _STATE["tick"] = 0
    _STATE["clock"] = list(clock) if clock is not None else [1000]


def set_clock(clock):
    _STATE["clock"] = list(clock)
    _STATE["tick"] = 0


def new_file(path="/v/f.nix", **kw):
    import nixio
    return nixio.File(path, nixio.FileMode.Overwrite, **kw)


def store_of(nixfile):
    return nixfile._h5file.store
