"""Verification framework for G-Node/nixpy: solver-based checking of the real code.

Exit codes used by every check command:
  0  every obligation discharged (or only listed KNOWN-FINDINGs refuted)
  1  an unlisted violation that reproduces on the real code (VIOLATION line printed)
  2  inconclusive (solver budget exhausted / unknown) -- never reported as success
  3  harness error (model validation failed, vacuous harness, non-reproducing
     counterexample, anchored function missing)
"""
EXIT_OK = 0
EXIT_VIOLATION = 1
EXIT_INCONCLUSIVE = 2
EXIT_HARNESS = 3
