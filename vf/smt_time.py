"""E2 - direct SMT encoding, generated from the AST of /repo/nixio/util/util.py,
of the timestamp text conversion:  str_to_time(time_to_str(t)) == t.

The translator reads the two function bodies on every run, extracts
  * the datetime constructor used by time_to_str            (must be UTC),
  * the strftime and strptime format strings,
  * the epoch subtracted by str_to_time,
and builds an integer formula from a fixed semantic table of the format
directives and the proleptic-Gregorian day <-> civil-date algorithm.  Any AST
shape or directive outside the table is INCONCLUSIVE (never 'pass').  The
encoding is validated on every run against the real functions.
"""
import ast
import os
import subprocess
import tempfile
import time as _time

import z3

WIDTH = {"Y": 4, "m": 2, "d": 2, "H": 2, "M": 2, "S": 2, "I": 2, "y": 2, "j": 3}


class Unsupported(Exception):
    pass


# ---------------------------------------------------------------------------
# AST extraction
# ---------------------------------------------------------------------------
def _fn(tree, name):
    for n in tree.body:
        if isinstance(n, ast.FunctionDef) and n.name == name:
            return n
    raise Unsupported("function %s not found" % name)


def _strip_calls(node, allowed):
    """peel .encode()/.decode() style wrappers"""
    while isinstance(node, ast.Call) and isinstance(node.func, ast.Attribute) and \
            node.func.attr in allowed:
        node = node.func.value
    return node


def extract(repo="/repo"):
    src = open(os.path.join(repo, "nixio/util/util.py")).read()
    tree = ast.parse(src)
    info = {}
    # ---- time_to_str -----------------------------------------------------------
    f = _fn(tree, "time_to_str")
    body = [s for s in f.body if not (isinstance(s, ast.Expr) and isinstance(s.value, ast.Constant))]
    if len(body) != 2 or not isinstance(body[0], ast.Assign) or not isinstance(body[1], ast.Return):
        raise Unsupported("time_to_str: unexpected statement shape")
    arg = f.args.args[0].arg
    call = body[0].value
    if not (isinstance(call, ast.Call) and isinstance(call.func, ast.Attribute) and
            isinstance(call.func.value, ast.Name) and call.func.value.id == "datetime"):
        raise Unsupported("time_to_str: first statement is not datetime.<ctor>(...)")
    info["ctor"] = call.func.attr
    if not (len(call.args) == 1 and isinstance(call.args[0], ast.Name) and call.args[0].id == arg):
        raise Unsupported("time_to_str: constructor argument is not the parameter itself")
    dtvar = body[0].targets[0].id
    ret = _strip_calls(body[1].value, ("encode", "decode"))
    if not (isinstance(ret, ast.Call) and isinstance(ret.func, ast.Attribute) and
            ret.func.attr == "strftime" and isinstance(ret.func.value, ast.Name) and
            ret.func.value.id == dtvar and len(ret.args) == 1 and
            isinstance(ret.args[0], ast.Constant) and isinstance(ret.args[0].value, str)):
        raise Unsupported("time_to_str: return is not <dt>.strftime('<literal>')")
    info["strftime"] = ret.args[0].value
    # ---- str_to_time -----------------------------------------------------------
    g = _fn(tree, "str_to_time")
    body = [s for s in g.body if not (isinstance(s, ast.Expr) and isinstance(s.value, ast.Constant))]
    # optional guards that do not concern text input:
    #   if isinstance(x, bytes): x = x.decode()      and      if x is None: return None
    garg = g.args.args[0].arg
    while body and isinstance(body[0], ast.If):
        node = body[0]
        src = ast.unparse(node).replace(" ", "").replace("\n", ";")
        ok1 = src == "ifisinstance(%s,bytes):;%s=%s.decode()" % (garg, garg, garg)
        ok2 = src == "if%sisNone:;returnNone" % garg.join(["", ""]) or \
            src == "if" + garg + "isNone:;returnNone"
        if not (ok1 or ok2 or src.startswith("if%sisNone:" % garg)):
            raise Unsupported("str_to_time: unexpected guard %r" % ast.unparse(node))
        body = body[1:]
    if len(body) != 2 or not isinstance(body[0], ast.Assign) or not isinstance(body[1], ast.Return):
        raise Unsupported("str_to_time: unexpected statement shape")
    sub = body[0].value
    if not (isinstance(sub, ast.BinOp) and isinstance(sub.op, ast.Sub)):
        raise Unsupported("str_to_time: not <parse> - <epoch>")
    p, e = sub.left, sub.right
    if not (isinstance(p, ast.Call) and isinstance(p.func, ast.Attribute) and p.func.attr == "strptime"
            and len(p.args) == 2 and isinstance(p.args[1], ast.Constant)):
        raise Unsupported("str_to_time: left operand is not datetime.strptime(x, '<literal>')")
    info["strptime"] = p.args[1].value
    if not (isinstance(e, ast.Call) and isinstance(e.func, ast.Name) and e.func.id == "datetime" and
            all(isinstance(a, ast.Constant) for a in e.args) and 3 <= len(e.args) <= 6 and not e.keywords):
        raise Unsupported("str_to_time: epoch is not datetime(<int literals>)")
    info["epoch"] = tuple(a.value for a in e.args)
    r = body[1].value
    if not (isinstance(r, ast.Call) and isinstance(r.func, ast.Name) and r.func.id == "int" and
            isinstance(r.args[0], ast.Call) and isinstance(r.args[0].func, ast.Attribute) and
            r.args[0].func.attr == "total_seconds"):
        raise Unsupported("str_to_time: return is not int(<delta>.total_seconds())")
    return info


def directives(fmt):
    out = []
    i = 0
    while i < len(fmt):
        if fmt[i] == "%":
            if i + 1 >= len(fmt):
                raise Unsupported("dangling %")
            d = fmt[i + 1]
            if d not in WIDTH:
                raise Unsupported("directive %%%s not in the semantic table" % d)
            out.append(("dir", d))
            i += 2
        else:
            out.append(("lit", fmt[i]))
            i += 1
    return out


# ---------------------------------------------------------------------------
# calendar arithmetic (generic over python ints and z3 ints)
# ---------------------------------------------------------------------------
class _PyOps:
    @staticmethod
    def div(a, b):
        return a // b

    @staticmethod
    def mod(a, b):
        return a % b

    @staticmethod
    def ite(c, a, b):
        return a if c else b


class _Z3Ops:
    @staticmethod
    def div(a, b):
        return a / b            # z3 Int '/' is integer division (floor for b > 0)

    @staticmethod
    def mod(a, b):
        return a % b

    @staticmethod
    def ite(c, a, b):
        return z3.If(c, a, b)


def civil_from_days(z, o):
    z = z + 719468
    era = o.div(z, 146097)
    doe = z - era * 146097
    yoe = o.div(doe - o.div(doe, 1460) + o.div(doe, 36524) - o.div(doe, 146096), 365)
    y = yoe + era * 400
    doy = doe - (365 * yoe + o.div(yoe, 4) - o.div(yoe, 100))
    mp = o.div(5 * doy + 2, 153)
    d = doy - o.div(153 * mp + 2, 5) + 1
    m = o.ite(mp < 10, mp + 3, mp - 9)
    y = o.ite(m <= 2, y + 1, y)
    return y, m, d


def days_from_civil(y, m, d, o):
    y = o.ite(m <= 2, y - 1, y)
    era = o.div(y, 400)
    yoe = y - era * 400
    mp = o.ite(m > 2, m - 3, m + 9)
    doy = o.div(153 * mp + 2, 5) + d - 1
    doe = yoe * 365 + o.div(yoe, 4) - o.div(yoe, 100) + doy
    return era * 146097 + doe - 719468


def encode(info, t, o):
    """returns (result, side_conditions, text_fields) for symbolic/concrete t"""
    if info["ctor"] != "utcfromtimestamp":
        raise Unsupported("constructor datetime.%s is not in the semantic table (only the UTC "
                          "conversion utcfromtimestamp is)" % info["ctor"])
    out = directives(info["strftime"])
    inp = directives(info["strptime"])
    if len(out) != len(inp):
        raise Unsupported("format strings differ in shape")
    days = o.div(t, 86400)
    sod = o.mod(t, 86400)
    Y, M, D = civil_from_days(days, o)
    h = o.div(sod, 3600)
    mi = o.div(o.mod(sod, 3600), 60)
    s = o.mod(sod, 60)
    doy = days - days_from_civil(Y, 1, 1, o) + 1
    h12 = o.ite(o.mod(h, 12) == 0, 12, o.mod(h, 12))
    written = {"Y": Y, "m": M, "d": D, "H": h, "M": mi, "S": s, "I": h12, "y": o.mod(Y, 100), "j": doy}
    parsed = {}
    fields = []
    side = []
    for (ko, vo), (ki, vi) in zip(out, inp):
        if ko != ki:
            raise Unsupported("format strings differ in shape (literal vs directive)")
        if ko == "lit":
            if vo != vi:
                raise Unsupported("literal characters differ (%r vs %r): strptime would raise" % (vo, vi))
            continue
        if WIDTH[vo] != WIDTH[vi]:
            raise Unsupported("directive widths differ (%%%s vs %%%s)" % (vo, vi))
        val = written[vo]
        fields.append((vo, val))
        if vi in parsed:
            raise Unsupported("directive %%%s parsed twice" % vi)
        parsed[vi] = val
    # reconstruct the datetime the way strptime does
    if "Y" in parsed:
        py = parsed["Y"]
    elif "y" in parsed:
        py = o.ite(parsed["y"] >= 69, parsed["y"] + 1900, parsed["y"] + 2000)
    else:
        py = 1900
    if "j" in parsed and "m" not in parsed:
        pdays = days_from_civil(py, 1, 1, o) + parsed["j"] - 1
    else:
        pm = parsed.get("m", 1)
        pd = parsed.get("d", 1)
        pdays = days_from_civil(py, pm, pd, o)
    if "H" in parsed:
        ph = parsed["H"]
    elif "I" in parsed:
        ph = o.ite(parsed["I"] == 12, 0, parsed["I"])      # no %p: AM
    else:
        ph = 0
    pmi = parsed.get("M", 0)
    ps = parsed.get("S", 0)
    ep = list(info["epoch"]) + [0] * (6 - len(info["epoch"]))
    edays = days_from_civil(ep[0], ep[1], ep[2], _PyOps)
    esec = edays * 86400 + ep[3] * 3600 + ep[4] * 60 + ep[5]
    result = pdays * 86400 + ph * 3600 + pmi * 60 + ps - esec
    return result, side, fields


def shape_ok(info):
    """the text has the shape YYYYMMDDTHHMMSS (15 characters)"""
    ds = directives(info["strftime"])
    want = [("dir", "Y"), ("dir", "m"), ("dir", "d"), ("lit", "T"), ("dir", "H"), ("dir", "M"),
            ("dir", "S")]
    return ds == want


def decide(repo="/repo", hi=4102444800, use_cvc5=True):
    """returns dict(status=holds|violated|inconclusive, ...)"""
    t0 = _time.time()
    out = {"queries": 0, "solver_time_s": 0.0}
    try:
        info = extract(repo)
        out["extracted"] = info
        t = z3.Int("t")
        res, side, fields = encode(info, t, _Z3Ops)
    except Unsupported as e:
        out.update(status="inconclusive", reason=str(e))
        return out
    dom = z3.And(t >= 0, t < hi)
    s = z3.Solver()
    s.set("timeout", 300000)
    s.add(dom, res != t)
    q0 = _time.time()
    r = s.check()
    out["queries"] += 1
    out["solver_time_s"] += _time.time() - q0
    out["z3_roundtrip"] = str(r)
    if str(r) == "sat":
        m = s.model()
        out.update(status="violated", t=m[t].as_long())
        return out
    if str(r) != "unsat":
        out.update(status="inconclusive", reason="z3 returned %s" % r)
        return out
    # field ranges (text is digits of the documented widths)
    rng = {"Y": (1970, 2100), "m": (1, 12), "d": (1, 31), "H": (0, 23), "M": (0, 59), "S": (0, 59),
           "I": (1, 12), "y": (0, 99), "j": (1, 366)}
    s2 = z3.Solver()
    s2.set("timeout", 120000)
    bad = z3.Or([z3.Or(v < rng[k][0], v > rng[k][1]) for k, v in fields])
    s2.add(dom, bad)
    q0 = _time.time()
    r2 = s2.check()
    out["queries"] += 1
    out["solver_time_s"] += _time.time() - q0
    out["z3_field_ranges"] = str(r2)
    if str(r2) == "sat":
        out.update(status="violated", t=s2.model()[t].as_long(), what="field out of range")
        return out
    if str(r2) != "unsat":
        out.update(status="inconclusive", reason="z3 returned %s on field ranges" % r2)
        return out
    if not shape_ok(info):
        out.update(status="violated", what="text shape is not YYYYMMDDTHHMMSS",
                   strftime=info["strftime"], t=0)
        return out
    if use_cvc5:
        smt = "(set-logic QF_NIA)\n" + s.to_smt2().replace("(check-sat)", "") + "(check-sat)\n"
        tmp = tempfile.mkdtemp(prefix="vf_c19_")
        try:
            p = os.path.join(tmp, "q.smt2")
            open(p, "w").write(smt)
            q0 = _time.time()
            try:
                pr = subprocess.run(["cvc5", "--tlimit=120000", p], stdout=subprocess.PIPE,
                                    stderr=subprocess.STDOUT, text=True, timeout=150)
                ans = pr.stdout.strip().splitlines()[-1] if pr.stdout.strip() else "?"
            except Exception as e:  # noqa
                ans = "error: %r" % (e,)
            out["queries"] += 1
            out["solver_time_s"] += _time.time() - q0
            out["cvc5_roundtrip"] = ans
        finally:
            import shutil
            shutil.rmtree(tmp, ignore_errors=True)
        if ans == "sat":
            out.update(status="inconclusive", reason="z3 says unsat, cvc5 says sat")
            return out
    out["status"] = "holds"
    out["wall_s"] = round(_time.time() - t0, 2)
    out["solver_time_s"] = round(out["solver_time_s"], 2)
    return out


def validate(repo="/repo"):
    """the encoding evaluated on concrete instants == the real functions"""
    import random
    from nixio.util import util as UU
    info = extract(repo)
    rnd = random.Random(19)
    ts = [0, 1, 59, 60, 86399, 86400, 951782400, 951868799, 951868800, 1078099199, 1078099200,
          4102444799, 1582934400, 1583020799, 1609459199, 1609459200, 2**31 - 1, 2**31]
    ts += [rnd.randrange(0, 4102444800) for _ in range(3000)]
    n = 0
    for t in ts:
        res, _, fields = encode(info, t, _PyOps)
        real_txt = UU.time_to_str(t)
        if isinstance(real_txt, bytes):
            real_txt = real_txt.decode()
        txt = ""
        it = iter(fields)
        for k, v in directives(info["strftime"]):
            if k == "lit":
                txt += v
            else:
                kk, val = next(it)
                txt += str(val).zfill(WIDTH[kk])
        if txt != real_txt:
            raise AssertionError("encoding of time_to_str differs at t=%d: %r vs real %r" % (t, txt, real_txt))
        real_back = UU.str_to_time(UU.time_to_str(t))
        if res != real_back:
            raise AssertionError("encoding of str_to_time differs at t=%d: %r vs real %r" % (t, res, real_back))
        n += 1
    return n
