#!/usr/bin/env python3
"""Regenerates /verif/MANIFEST.json from the table below (single source of truth)
and validates it against the schema if jsonschema is importable."""
import json
import os

ROOT = os.path.dirname(os.path.dirname(os.path.abspath(__file__)))

TECH = ("bounded symbolic execution of the real nixio functions with CrossHair, every branch "
        "condition decided by z3 (SMT); counterexamples replayed on the real h5py stack")

CLAIMED = {
    "C06": dict(
        text="Every index expression kind (int, slice with positive step, Ellipsis, padding, surplus "
             "indices) on a view over an arbitrary window is transformed to exactly the parent "
             "selection NumPy semantics prescribe, reads and writes address the same elements, "
             "out-of-range ints / windows beyond the extent are refused - for ALL integer values "
             "(unbounded) at ranks 1-2 (quick) / 1-4 (thorough), one general slice per tuple. "
             "Solver verdict per path, not sampling.",
        note="Trusted: h5py's interpretation of an already normalised selection tuple (modelled by "
             "Python slice semantics, cross-checked on a real file each run); CrossHair's Python "
             "semantics; the pure-Python slice.indices model (validated exhaustively on a grid). Round 3: direct_array_index compares the ELEMENTS returned by direct reads of a rank-2 / rank-3 array on fakeh5 (kinds of all tuple entries symbolic, one stepped slice per expression) with NumPy's rule.",
        ref="3 C06"),
    "C09": dict(
        text="For the complete prefix x unit x power tables read from the tree (21 x 31 x 7): every "
             "combination is atomic SI and split() returns exactly its parts; scaling equals the "
             "prefix-factor ratio to the power (rel 1e-12) and inverts; scalable <=> same unit and "
             "power, otherwise scaling refuses; products/quotients are recognised as compound; the "
             "sanitizer is idempotent on all strings over a 6-letter alphabet up to length 4/6. "
             "Table indices are symbolic selectors decided by z3, partitioned by one concrete index.",
        note="Strings reaching `re` are concrete per path (symbolic strings inside the regex engine "
             "do not terminate), so the solver's role is deciding the index selectors over the "
             "stated finite domain; quick tier restricts scaling/scalable to the colliding units "
             "(V, m, mol, S, Sv, W), thorough covers all 31. CPython float arithmetic is executed "
             "concretely per path.",
        ref="3 C09"),
    "C07": dict(
        engine="crosshair-z3 + ast-smt",
        technique="bounded symbolic execution with CrossHair/z3 on exact rationals; IEEE-754 round trip "
                  "by an AST->QF_FP encoding decided by z3",
        text="index_of (3 modes), range_indices (2 modes), position_at/tick_at/axis and the "
             "round trip of the real Sampled/Range/SetDimension classes equal the set-builder "
             "definitions (last sample <= p, last < p, first >= p, IndexError iff none; index "
             "range = samples inside the interval, None iff empty) for EVERY position/offset/tick "
             "on the dyadic lattice k/16, |x| <= 32, intervals 2^-3..2^3, tick vectors of length "
             "1-3 (quick) / 1-5 (thorough) incl. repeats, 0-4 labels. z3 decides each path. In addition, "
             "in IEEE-754 binary64: index_of(position_at(i)) == i (i-1 for Less) for all i <= 4096 "
             "(65536 thorough) and the non-dyadic intervals 0.1, 0.001, 0.3 (+offset 0.7), by a QF_FP "
             "formula generated from the AST of the two methods.",
        note="Floats are modelled by exact rationals (Q) on a lattice where IEEE evaluation is exact "
             "(argued lemma in DESIGN.md, exercised on 2000 points per run, and every counterexample "
             "is replayed with real floats on a real file); NumPy calls are served by a validated "
             "pure-Python shim. Outside: non-dyadic intervals, |x| > 32, positions inside the "
             "isclose tolerance band, NaN/inf, non-positive sampling intervals.",
        ref="3 C07"),
    "C11": dict(
        text="The open decision table of File.__init__ holds for EVERY stored version triple in Z^3 "
             "(and wrong-length versions), both format tags, valid/invalid/missing id, existing or "
             "missing path and all three modes: missing+r -> error and nothing created; missing or w "
             "-> TRUNC create with a fresh valid header and no content; existing+a -> RDWR, accepted "
             "iff nix tag, version == library, valid id; existing+r -> RDONLY flag, accepted iff nix "
             "tag, same major, minor not newer, valid id from 1.2.0 on; neither a refused nor an "
             "accepted open changes the stored tree. Plus: mutating calls on a read-only handle fail "
             "and change nothing; every introspected read call returns the same in r and a mode.",
        note="Runs the real File/H5Group code on fakeh5 (in-memory stand-in for the h5py calls, "
             "validated against real h5py by a differential script each run). That libhdf5 honours "
             "ACC_RDONLY and keeps bytes identical is trusted - the flag handed over is asserted; "
             "counterexamples are replayed on a real file incl. a byte-for-byte comparison.",
        ref="3 C11"),
    "C19": dict(
        text="(a) str_to_time(time_to_str(t)) == t, the text fields stay in range and the text has "
             "the YYYYMMDDTHHMMSS shape for every whole second 1970-2100: unsat verdicts of z3 and "
             "cvc5 on an SMT formula regenerated from the AST of util.py each run. (b) For every "
             "setter named in the statement (35 calls over all entity kinds), both settings of the "
             "auto-update switch given at open or toggled later, and all clock instants c0 <= c1 "
             "in Z: creation times never change, update times never decrease, auto off changes "
             "nothing, auto on sets exactly the target's update time to the current instant; "
             "force_*_at(t) then read returns t for all t.",
        note="(a) the C datetime library is represented by a fixed semantic table (strftime/strptime "
             "directives, civil-date algorithm) validated against the real functions on 3018 instants "
             "per run; unknown AST shapes/directives give 'inconclusive'. (b) runs on fakeh5 with the "
             "clock stubbed; one fixture file; DataFrame setters and persistence across reopen "
             "(libhdf5) are outside. Counterexamples are replayed on a real HDF5 file.",
        engine="crosshair-z3 + ast-smt",
        technique="AST->SMT-LIB encoding decided by z3 and cvc5 (text conversion); bounded symbolic "
                  "execution with CrossHair/z3 over symbolic clock instants (policy)",
        ref="3 C19"),
    "C12": dict(
        text="For 12 groups of public creating/mutating call sites (all create_* of File/Block/Source/"
             "Section, create_feature, create_property, Property.values/extend_values, the three "
             "append_*_dimension, RangeDimension.ticks, Dimension.link_data_array, DataSet.append, "
             "link-list appends, 17 attribute setters) and every combination of argument classes "
             "from their tables (fresh/empty/slash/duplicate name, empty type, unsupported dtype as a "
             "backend fault, inconvertible data, wrong shapes, unordered ticks, wrong kind, foreign "
             "block, bad index, None, wrong Python type): whenever the call raises, the complete raw "
             "object store is identical to the snapshot taken before and a valid call then succeeds.",
        note="Selectors over the argument-class tables are symbolic (solver-enumerated finite domain); "
             "'arbitrary valid history' is represented by one fixture containing every entity kind; "
             "runs on fakeh5 with two modelled backend faults (dataset creation refuses a dtype; "
             "text cannot be written into a numeric dataset). Counterexamples are replayed on a real "
             "HDF5 file comparing an API-level picture of the whole file. One known finding "
             "(KF-C12-1, known_findings.json). Round 3: argument classes added for create_data_frame, link_data_frame, the feature data setter, integer overflow / float32 property values, empty and 2-d ticks on a linked dimension, unconvertible appended data, names that are the id text of a sibling.",
        ref="3 C12"),
    "C03": dict(
        text="(a) check_entity_name refuses exactly the empty name and names containing '/', for every "
             "string up to 6 characters (free symbolic string). (b) For 11 container kinds (blocks, "
             "sections and subsections, properties, arrays, tags, multi-tags, groups, sources and "
             "sub-sources, a group's link list) and every pair of names from a table containing "
             "names that sort against creation order, 32-hex / UUID-text / urn / brace names, a "
             "non-ASCII and a 300-character name: duplicates are refused with DuplicateName, every "
             "other name accepted; len, iteration, items(), lookup by name / id / position, "
             "membership by name / id / entity all describe creation order, also after deleting any "
             "element by name, id, index or object, and the freed name can be reused with a new id. "
             "(c) positional indexing agrees for EVERY integer index (wrap-around and IndexError "
             "exactly outside [-L, L)).",
        note="Runs on fakeh5 (creation-order iteration, hard links and H5Ovisit order validated "
             "against h5py each run); ids from a counter stub (uuid4 randomness outside); quick tier "
             "uses 4 of the 8 table names and deletion by name/id; data frames and behaviour after "
             "reopening (libhdf5) are outside. Counterexamples replayed on a real HDF5 file.",
        ref="3 C03"),
    "C10": dict(
        text="For value lists of length 1-2 (quick) / 1-3 (thorough) whose elements have a symbolic "
             "KIND (bool/int/float/str; ints unbounded, the others from tables containing the "
             "colliding True / 1 / 1.0 and empty / non-ASCII text): create_property stores exactly "
             "the list with the right type iff it is homogeneous, otherwise TypeError and nothing is "
             "created; values= / extend_values on a property of each of the four types store the new "
             "list / old+new iff all elements have the property's kind, otherwise TypeError and the "
             "stored values are unchanged; clearing keeps the type; Section lookup / assignment / "
             "deletion / membership / len / iteration / items agree with props and sections.",
        note="Runs on fakeh5; np.array/np.shape in property.py are served by a list-preserving shim so "
             "values stay symbolic; conversion to HDF5 types and back, NaN/extremes and reopening are "
             "libhdf5/NumPy (exercised only by the real-stack replay of counterexamples).",
        ref="3 C10"),
    "C13": dict(
        text="On section and source trees with names repeated across subtrees and levels: "
             "find_sections / find_sources from the file, a block or any node, for EVERY integer "
             "depth limit (and no limit) and every name filter, return exactly the breadth-first "
             "list of the nodes within the limit that pass the filter; the parent of every node "
             "(handle obtained by navigation, by a search, or through a metadata / source link) is "
             "the containing node, None at the top, parent_block the owning block, find_related = "
             "siblings then children; referring_* lists of sections and sources are exactly the "
             "inverse of symbolic link selectors over blocks, groups, arrays, tags, multi-tags and "
             "sources of two blocks.",
        note="Oracles come from an independent nested-tuple description of the tree. Three fixed tree "
             "shapes (two in the quick tier); non-positive limits when starting from a file/block "
             "are outside (the start is not a tree node); fakeh5 backend; reopening is libhdf5. "
             "Counterexamples are replayed on a real HDF5 file.",
        ref="3 C13"),
    "C14": dict(
        text="File.validate()['errors'] equals, object by object, the expectation computed from a "
             "symbolic injection recipe by an independent specification of the catalogue: for arrays "
             "of rank 1-2 with a missing / surplus descriptor and one injected descriptor of any kind "
             "(label counts; interval 1, 0, <0, missing; ticks sorted / short / long / unsorted / equal "
             "/ missing; units from a table with non-SI and compound entries); for a deleted type / "
             "name / creation date on each of 9 entity kinds incl. nested sources and sections; for "
             "tags and multi-tags around a consistent base with single (quick) or pairwise (thorough) "
             "injections of position / extent / unit lengths, one unit value, one dimension unit, no "
             "reference, differing row counts. Consistent recipes report nothing; untouched objects "
             "are never reported.",
        note="Runs on fakeh5; expected reports come from the recipe, not from reading the file; "
             "'RangeDimTicksMismatch' for a dimension without ticks is accepted but not required; one "
             "known finding (KF-C14-1: a missing entity id aborts validation). Counterexamples are "
             "replayed on a real HDF5 file.",
        ref="3 C14"),
    "C08": dict(
        text="For a tag on a 1-d array with a sampled / range / set descriptor, every position and "
             "extent on the lattice k/16 (|x| <= 32), sampling interval 1 (quick; 2^-3..2^3 thorough), "
             "offsets, tick vectors of 1-3 ticks, 0 or 3 labels, both stop rules, extent absent / 0 / "
             "> 0, referenced extents 0..12, and six tag-unit / dimension-unit cases (none, equal, "
             "cm->mm, unit only on the dimension, only on the tag, different base unit): "
             "tagged_data is a valid view whose window is exactly [min R, max R] of the index set R "
             "of the samples inside the region, an invalid empty view iff R is empty, OutOfBounds iff "
             "R runs past the stored extent, IncompatibleDimensions iff the units cannot be "
             "converted. Rank 2: dimension beyond the position's length taken whole. Multi-tags: "
             "row selection (1-d and 2-d positions, row out of range -> OutOfBounds). Features: "
             "tagged = same region rule on the feature array, indexed = the row, untagged = whole.",
        note="Coordinates are exact rationals standing for floats on a lattice where IEEE arithmetic "
             "is exact (DESIGN.md lattice lemma); unit factors 1 and 10 only (down-scaling factors "
             "are inexact in binary); for non-dyadic intervals (0.1, 0.001, 0.3 with offset 0.7) "
             "a bit-precise QF_FP encoding generated from the AST of position_at/index_of shows that a "
             "tag placed exactly on sample i <= 4096 selects exactly sample i. fakeh5 backend; counterexamples are "
             "replayed with real floats on a real HDF5 file. Positions / extents arrays of an INTEGER element type are outside the claim (partitions written, the solver does not finish them; seed C08-r4s1 is recorded as not caught).",
        ref="3 C08"),
    "C05": dict(
        text="PARTIAL. Decided: (i) for 8 link lists (group arrays / tags / multi-tags, tag and "
             "multi-tag references, array / tag / group sources) and feature data, every pair of "
             "appended candidates from a 15-entry table (own and foreign block, equal names in both "
             "blocks, nested own and foreign sources, wrong kinds) is accepted iff it has the right "
             "kind and belongs to the owning block (its source tree); refusals leave the list "
             "unchanged; (ii) Dimension.link_data_array accepts an index vector iff its length equals "
             "the rank, exactly one entry is -1 and no other is negative - for ALL integer vectors up "
             "to length 3 - and the dimension then reports the addressed vector, the target's unit "
             "and label, live; explicit ticks replace the link and vice versa; (iii) an attribute "
             "written through any one of up to 7 access paths is read back through all others with "
             "the same id, the same-named entity of the other block is untouched, removing a list "
             "entry does not delete the entity.",
        note="NOT decided: that an HDF5 hard link is the same object on disk and after reopening "
             "(libhdf5; in fakeh5 a hard link is the shared node, pinned by the differential "
             "script). Data frame links are outside (data frames do not work with the installed "
             "NumPy). Counterexamples are replayed on a real HDF5 file.",
        ref="3 C05"),
    "C15": dict(
        text="PARTIAL. For 1-3 stored values, coefficient lists of length 0-3, origin absent / 0 / "
             "non-zero (all exact rationals k/16 with symbolic numerators), stored element types "
             "int16 / float32 / float64 and six read paths (whole, single element, slice, view, "
             "read_direct into an ndarray buffer, element of a view): every element read equals "
             "c0 + c1 (x-o) + c2 (x-o)^2 exactly (so slicing and calibration commute), calibrated "
             "reads have the double element type and uncalibrated reads the stored one, and the "
             "stored raw values are the identical objects afterwards; for all 3-step sequences of "
             "setting / changing / clearing coefficients and origin the getters return what was set, "
             "reads follow, raw values never change.",
        note="NOT decided: float rounding of the polynomial and NumPy's integer->double conversion "
             "(NumPy arrays on this path are a pure-Python stand-in with exact rational arithmetic, "
             "its Horner polyval validated against NumPy); rank > 1; reads through tags (same "
             "DataView path as C08). Counterexamples are replayed with real floats on a real file.",
        ref="3 C15"),
    "C02": dict(
        text="PARTIAL. nixio keeps no state of its own: after any two operations from a table of 38 API "
             "calls (set / clear attributes, write / assign / append data, create, delete, link, "
             "unlink, dimension changes; applied through long-lived handles that had been read from "
             "before, or through second handles of the same entities), the complete observable state "
             "(every entity kind, attributes, timestamps, data, descriptors, links, order) read "
             "through the session's long-lived handles equals the state read through a freshly opened "
             "File on the same store, read-only and read-write, and again after the session closed.",
        note="NOT decided: that libhdf5 returns after close + reopen what it was given (in fakeh5 a "
             "reopen attaches to the same in-memory store; the real-stack replay of a counterexample "
             "does a real close + reopen). Histories of two operations on one fixture; quick tier uses "
             "every third operation as the first step, thorough all 38. Round 3: the state is read through TWO sets of long-lived handles and a fresh file; obligation last_write_wins writes each of 25 attributes twice (None, empty, non-ASCII, int then float) through one or two handles and reads it back through both and from a fresh file. Known finding KF-C02-1.",
        ref="12 (as built)"),
    "C04": dict(
        text="PARTIAL. On a fixture with a rich link topology (two blocks with equal entity names; one "
             "array linked from a group, a tag's references and feature, a multi-tag's positions / "
             "extents / references; nested sources and sections with repeated names; metadata links "
             "from block, array, tag, sources, a member-less group) and for every one of 13 entities "
             "deleted by name, id, object or index: afterwards the API-level picture of the whole file "
             "equals the picture before with the deleted entity, everything it owns and every link to "
             "any of them removed - nothing else changed, order kept. For every one of 14 links (list "
             "entries by id / object / index, metadata links incl. those of a leaf source and an empty "
             "group): removing the link changes exactly that link and deletes neither target nor owner.",
        note="Decided is nixio's Python side: which ids are collected and sent for deletion, that the "
             "link / metadata deleters unlink only, H5Group.delete's delete-if-empty rule. NOT decided: "
             "that libhdf5's H5Ovisit reaches every link and frees the storage - fakeh5's visititems "
             "is pinned to h5py by the differential script (incl. two delete-while-visiting scenarios) "
             "but remains a model. One fixture; data frames outside. Counterexamples are replayed on a "
             "real HDF5 file. Round 3: fixture with data frames, a block without content, cross-block positions / extents / dimension links; known finding KF-C04-1 (block deletion leaves cross-block links).",
        ref="9 (as built)"),
    "C18": dict(
        text="PARTIAL. For old-format files built from 5 property sets (0-3 properties of int / float / "
             "text / bool values in nested sections; uniform, mixed and absent per-value extras; an empty "
             "property; a property whose name collides with an extras name) x 0-2 alias range dimensions x "
             "5 format versions older than the library x valid / invalid / missing file id, and for EVERY "
             "interruption point n >= 1 (unbounded integer; the process dies at the n-th open of the file "
             "with write intent, i.e. between any two conversion steps - tasks and single property / "
             "dimension conversions alike): an interrupted run reports failure, leaves the header version "
             "untouched, the file is still refused for writing and still scheduled for upgrade; a re-run "
             "completes; the result is openable for writing, has the library's version and a valid file id "
             "(kept if it was valid), reads - through nixio - exactly as the old file read before (property "
             "values, units, definitions; arrays; alias descriptors keep ticks, unit and label and are "
             "stored as links), holds no compound property, keeps every per-value extra retrievable, and "
             "a further upgrade changes nothing. A file whose version is the library's or newer (5 "
             "triples) is not opened for writing at all and stays identical.",
        note="The real nixio/cmd/upgrade.py and the real File / Property / RangeDimension read paths run "
             "symbolically on fakeh5 (compound datasets, high-level File and hard links pinned to h5py by "
             "the differential script). NOT decided: interruptions INSIDE a conversion step and what "
             "libhdf5 leaves on disk then (the statement speaks of points between steps; every step "
             "closes the file), HDF5's own conversion of compound values, concurrent upgrade processes. "
             "Counterexamples are replayed on a real HDF5 file with the interruption injected at the same "
             "open.",
        ref="12 (as built)"),
    "C16": dict(
        text="PARTIAL. Data frames created in all four documented ways (col_dict, names + dtypes, names + data, "
             "structured array) from four schemas of 1-6 columns (text, int64, float64, bool, int8, int16, "
             "uint8) with 0-3 rows; then ONE operation (quick and thorough) or a history of TWO operations "
             "followed by reads out of: overwrite one row / two rows, overwrite a column by index / by name, "
             "overwrite a cell by (row, column) position / by column name, append 0-2 rows (incl. a ragged "
             "one), append a column (right / wrong length, fresh / duplicate name, derived / explicit type), "
             "set units, four kinds of refused writes. The ROW index is any integer (unbounded), the COLUMN "
             "index any integer in [-8, 8]. After every step: column names, column types, all cells (read as "
             "a whole, row by row, column by column by index and by name, cell by cell in both addressing "
             "modes), df_shape / shape / len / row_count, units and columns equal what the calls made so far "
             "say (0 <= index < count must be accepted, out-of-range / unknown / wrong-length / duplicate "
             "must leave the table unchanged, a negative in-range index may be refused or address index + "
             "count), and a freshly opened File on the same store sees the same table. A duplicate column "
             "name or missing type information at creation is refused and leaves no frame behind.",
        note="The real Block.create_data_frame, DataFrame.*, DataSet.append / __getitem__, "
             "H5DataSet.read_data / write_data run symbolically on fakeh5, whose 1-d compound tables are "
             "REAL NumPy structured arrays (so record / dtype semantics are NumPy's own) under h5py's "
             "selection rules (list indices increasing, negative wrap, which exception for which case, "
             "contiguous vs chunked resizing, text as bytes), pinned to h5py by 52 observations of the "
             "differential script. Cell VALUES are concrete (tables) - NumPy's conversion of a cell to the "
             "column type is NumPy's. NOT decided: that libhdf5 stores compound rows faithfully on disk and "
             "after a real reopen; tables wider than 6 columns / longer than 3+2 rows; histories longer "
             "than two operations; CSV export, print_table. Counterexamples are replayed on a real HDF5 "
             "file. Four defects were found and fixed (known_findings.json).",
        ref="12 (as built)"),
    "C20": dict(
        text="PARTIAL. For one source entity of each copyable kind except data frames (a block with arrays, "
             "descriptors, tag with references and feature, multi-tag, group, nested sources and metadata "
             "links; an array; a tag; a multi-tag; a top-level and a nested section with properties and "
             "subsections; a property), copied into 2-3 destinations (same parent, another parent of the "
             "same file, another file), with no name / a new name / a name that is taken at the destination, "
             "both id policies, recursive and non-recursive section copies: a taken name is refused and both "
             "files stay exactly as they were; otherwise the RETURNED object is the copy (named as requested, "
             "located in the destination), its observable content equals the source's recursively "
             "(non-recursive section copies: properties, no subsections), the source is unchanged, ids are "
             "the source's everywhere (keep) or all new, pairwise distinct and disjoint from every id that "
             "existed (fresh), in a copied block the tag's, multi-tag's and group's links lead to the copied "
             "array and not to the original, and one of four later changes (attribute, added child, deleted "
             "child, change through a link) made to either side is invisible on the other.",
        note="Decided is nixio's Python side: source path, destination, name, refusal before any write, id "
             "policy, returned object, non-recursive handling - executed symbolically on fakeh5, whose copy "
             "is a deep copy with H5Ocopy's sharing rules (links inside the hierarchy stay shared inside the "
             "copy, cycles, links leaving it are duplicated, shallow = immediate members) pinned to h5py by "
             "the differential script. NOT decided: libhdf5's byte-level copy; data frames as copy sources; "
             "one fixture. Counterexamples are replayed on real HDF5 files. "
             "KF-C20-1 (same-file copies with kept ids are not independent under deletion) is a known finding. Round 3: data frames as copy sources, kept-id copies inside the source hierarchy, the source's ids are unchanged, the RETURNED handle lives in the destination (file, accepted link targets, copying it copies the copy).",
        ref="12 (as built)"),
    "C01": dict(
        text="PARTIAL - only the Python-side arithmetic and decisions of nixio are decided: "
             "(i) DataSet.append for ranks 1-3 (quick) / 1-4 (thorough), ALL non-negative extents of the "
             "array and of the appended block (unbounded integers), every axis: accepted iff same rank "
             "and equal off-axis extents, then exactly one enlargement to old+k on that axis and one "
             "write of the given data into the hyperslab [old, old+k) x full ranges; refused -> no "
             "resize, no write. (ii) the dataset is gzip-compressed iff the first non-Auto of (array, "
             "block, file) is DeflateNormal, for all 27 combinations. (iii) create_data_array: shape "
             "from the data, an explicit shape must equal it, dtype = argument else the data's else "
             "f8, unlimited maxshape on every axis, the data written once and whole. (iv) every index "
             "expression (ints incl. 0 and negatives, slices, tuples, Ellipsis) and the value reach the "
             "backend unchanged for reads and writes. (v) a read has the selection's shape, a scalar "
             "becomes (1,).",
        note="NOT decided and not claimed: that libhdf5/h5py return the stored elements bit for bit "
             "for every element type, filter, rank and after close/reopen - that behaviour is not code "
             "of this repository and cannot be executed symbolically. axis outside [0, rank) is outside "
             "the asserted domain. Runs on fakeh5 (operation log of resize/write calls).",
        ref="3 C01"),
}

NOT_APPLICABLE = {
    "C17": "Solver-based checking not applicable: flush/close durability under SIGKILL is libhdf5 cache "
           "flushing plus the kernel page cache; the repository's share is two delegating lines with "
           "no input to make symbolic, and crash points cannot be encoded with the tools present.",
}

PENDING_REASON = "check not built yet in this round (planned, see DESIGN.md section 3)"

ALL = ["C%02d" % i for i in range(1, 21)]


def main():
    checks = []
    for pid in sorted(CLAIMED):
        c = CLAIMED[pid]
        checks.append({
            "property_id": pid,
            "quick_cmd": "./check %s --tier quick" % pid,
            "thorough_cmd": "./check %s --tier thorough" % pid,
            "evidence_file": "/verif/evidence/%s.json" % pid,
            "replay_cmd_template": "./check %s --replay {path}" % pid,
            "engine": c.get("engine", "crosshair-z3"),
            "level_claimed": {"category": "other", "text": c["text"],
                              "design_ref": "DESIGN.md section " + c["ref"]},
            "level_note": c["note"],
            "technique": c.get("technique", TECH),
        })
    na = []
    for pid in ALL:
        if pid in CLAIMED:
            continue
        na.append({"property_id": pid, "reason": NOT_APPLICABLE.get(pid, PENDING_REASON)})
    man = {
        "version": 1,
        "setup_cmd": "./bin/setup.sh",
        "hooks": {
            "guard": "NIXPY_VERIF",
            "enable": "no source hooks: all stubbing is done by assigning module globals / "
                      "CrossHair patches inside the analysis process",
            "baseline_off_cmd": "cd /repo && /venv/bin/python -m pytest -ra -q -p no:cacheprovider "
                                "--timeout=900 --continue-on-collection-errors",
            "source_commits": [],
            "add_only": True,
        },
        "engines": [
            {"name": "crosshair-z3", "path": "/verif/vf",
             "serves_properties": sorted(p for p in CLAIMED if CLAIMED[p].get("engine", "crosshair-z3") == "crosshair-z3"),
             "kind_free_text": "CrossHair 0.0.110 symbolic execution of the real nixio modules, z3 "
                               "decides path conditions; one OS process per obligation"},
            {"name": "ast-smt", "path": "/verif/vf/smt_time.py",
             "serves_properties": sorted(p for p in CLAIMED if "ast-smt" in CLAIMED[p].get("engine", "")),
             "kind_free_text": "AST -> SMT-LIB translation of two-line glue functions, z3 + cvc5"},
        ],
        "checks": checks,
        "not_applicable": na,
        "notes": "Exit codes: 0 held, 1 VIOLATION (replayed on the real code), 2 inconclusive "
                 "(solver budget / unknown), 3 harness error. Known findings: "
                 "/verif/known_findings.json. See DESIGN.md.",
    }
    with open(os.path.join(ROOT, "MANIFEST.json"), "w") as fh:
        json.dump(man, fh, indent=1)
    try:
        import jsonschema
        jsonschema.validate(man, json.load(open("/root/.vp/MANIFEST.schema.json")))
        print("MANIFEST.json valid: %d checks, %d not_applicable" % (len(checks), len(na)))
    except ImportError:
        print("MANIFEST.json written (jsonschema not importable here)")


if __name__ == "__main__":
    main()
