#!/usr/bin/env python3
"""Evaluate one seeded defect: tools/seed_eval.py <PROP> <seed_dir> <scratch_worktree> [--tests]
 1. demo passes on the clean scratch worktree, fails with the patch
 2. (--tests) full test suite with the patch: the set of passing baseline tests is unchanged
 3. ./check PROP (quick) against the patched tree (VERIF_REPO=<worktree>) -> caught?
Writes <seed_dir>/eval.json."""
import json, os, subprocess, sys, time

def sh(cmd, cwd=None, env=None, timeout=3600):
    e = dict(os.environ); e.update(env or {})
    p = subprocess.run(cmd, shell=True, cwd=cwd, env=e, stdout=subprocess.PIPE, stderr=subprocess.STDOUT, text=True, timeout=timeout)
    return p.returncode, p.stdout

def main():
    prop, sd, wt = sys.argv[1], os.path.abspath(sys.argv[2]), os.path.abspath(sys.argv[3])
    tests = "--tests" in sys.argv
    res = {"property": prop, "seed_dir": sd}
    if not tests and os.path.exists(os.path.join(sd, "eval.json")):
        # keep the test-suite result of an earlier full evaluation (the patch is the same)
        old = json.load(open(os.path.join(sd, "eval.json")))
        for k in ("tests_newly_failing", "tests_summary", "tests_wall_s"):
            if k in old:
                res[k] = old[k]
        res["first_check_rc"] = old.get("first_check_rc", old.get("check_rc"))
    sh("git reset -q --hard && git clean -fdq", cwd=wt)
    # evaluate against the CURRENT /repo HEAD (fix commits made after the seed was written)
    rc, head = sh("git -C /repo rev-parse HEAD")
    sh("git checkout -q --detach %s" % head.strip(), cwd=wt)
    res["repo_head"] = head.strip()[:10]
    env = {"PYTHONPATH": wt, "PYTHONDONTWRITEBYTECODE": "1"}
    rc0, out0 = sh("/venv/bin/python %s/demo.py" % sd, cwd=wt, env=env, timeout=600)
    res["demo_clean_rc"] = rc0
    rc, out = sh("git apply %s/patch.diff" % sd, cwd=wt)
    if rc != 0:
        # the tree moved on (later fix commits): try a 3-way merge of the patch
        rc, out = sh("git apply -3 %s/patch.diff && git reset -q" % sd, cwd=wt)
        res["apply_3way"] = True
    res["apply_rc"] = rc
    if rc != 0:
        res["apply_out"] = out[-500:]
        json.dump(res, open(os.path.join(sd, "eval.json"), "w"), indent=1)
        print(json.dumps(res, indent=1))
        sh("git reset -q --hard && git clean -fdq", cwd=wt)
        return
    rc1, out1 = sh("/venv/bin/python %s/demo.py" % sd, cwd=wt, env=env, timeout=600)
    res["demo_patched_rc"] = rc1
    res["demo_patched_tail"] = out1[-600:]
    if tests:
        t0 = time.time()
        rc, out = sh("/venv/bin/python -m pytest -q -p no:cacheprovider --timeout=900 -x -q --co -q >/dev/null 2>&1; /venv/bin/python -m pytest -q -p no:cacheprovider --timeout=900 -rf 2>&1 | tail -60", cwd=wt, env=env, timeout=3000)
        failed = sorted(set(l.split()[1].split(" - ")[0] for l in out.splitlines() if l.startswith("FAILED ")))
        base = json.load(open("/root/.vp/BASELINE.json"))
        def norm(t):  # nixio/test/test_x.py::Cls::name -> nixio.test.test_x.Cls::name
            f, rest = t.split("::", 1)
            return f[:-3].replace("/", ".") + "." + rest
        failedn = set(norm(t) for t in failed)
        res["tests_newly_failing"] = sorted(failedn & set(base["stable_pass"]))
        res["tests_summary"] = out.strip().splitlines()[-1] if out.strip() else ""
        res["tests_wall_s"] = round(time.time() - t0)
    t0 = time.time()
    rc, out = sh("./check %s --no-evidence" % prop, cwd="/verif", env={"VERIF_REPO": wt}, timeout=7200)
    res["check_rc"] = rc
    res["check_wall_s"] = round(time.time() - t0)
    res["check_violations"] = [l for l in out.splitlines() if l.startswith("VIOLATION")][:5]
    res["check_detail"] = [l.strip()[:300] for l in out.splitlines() if l.strip().startswith("obligation=")][:5]
    res["check_tail"] = out.strip().splitlines()[-1] if out.strip() else ""
    res["check_other"] = [l[:300] for l in out.splitlines() if l.startswith(("HARNESS-ERROR", "INCONCLUSIVE"))][:5]
    sh("git reset -q --hard && git clean -fdq", cwd=wt)
    json.dump(res, open(os.path.join(sd, "eval.json"), "w"), indent=1)
    print(json.dumps(res, indent=1))

main()
