#!/usr/bin/env python3
"""tools/keep_seed.py <PROP> <seed_dir> <id> : keep a confirmed seeded defect under /verif/seeded/<id>/"""
import json, os, shutil, sys
prop, sd, sid = sys.argv[1:4]
dst = os.path.join(os.path.dirname(os.path.dirname(os.path.abspath(__file__))), "seeded", sid)
os.makedirs(dst, exist_ok=True)
for f in ("patch.diff", "demo.py", "notes.txt"):
    shutil.copy(os.path.join(sd, f), os.path.join(dst, f))
ev = json.load(open(os.path.join(sd, "eval.json")))
notes = open(os.path.join(sd, "notes.txt")).read()
meta = {
    "property": prop,
    "origin": "independent sub-agent given only the property text and a scratch worktree",
    "needs_to_manifest": notes.strip(),
    "confirmed": {
        "demo_exit_clean_tree": ev["demo_clean_rc"], "demo_exit_with_patch": ev["demo_patched_rc"],
        "existing_tests_newly_failing_with_patch": ev.get("tests_newly_failing"),
        "test_summary_with_patch": ev.get("tests_summary"),
    },
    "what_was_run": [
        "cd <scratch worktree> && PYTHONPATH=<worktree> /venv/bin/python demo.py   (clean, then with patch.diff applied)",
        "cd <scratch worktree> && PYTHONPATH=<worktree> /venv/bin/python -m pytest -q -p no:cacheprovider --timeout=900   (with patch; compared with /root/.vp/BASELINE.json stable_pass)",
        "VERIF_REPO=<patched worktree> ./check %s --tier quick" % prop,
    ],
    "check_result": {"exit": ev["check_rc"], "caught": ev["check_rc"] == 1, "wall_s": ev["check_wall_s"],
                     "violations": ev["check_violations"], "detail": ev["check_detail"], "summary": ev["check_tail"]},
}
if len(sys.argv) > 4:
    meta["history"] = sys.argv[4]
elif ev.get("first_check_rc") is not None and ev["first_check_rc"] != ev["check_rc"]:
    meta["history"] = "first evaluation: exit %s (missed); caught after the check was strengthened" % ev["first_check_rc"]
else:
    meta["history"] = "caught at the first evaluation; nothing was adapted to this seed"
json.dump(meta, open(os.path.join(dst, "meta.json"), "w"), indent=1)
print(sid, "caught" if meta["check_result"]["caught"] else "MISSED")
