#!/bin/bash
# Idempotent offline bootstrap of the analysis interpreter (/verif/.venv):
# an overlay venv on top of /venv (which has nixio's deps: numpy, h5py) plus
# crosshair-tool + z3-solver from the offline wheelhouse.
set -e
cd "$(dirname "$0")/.."
VENV=/verif/.venv
WHEELS=/opt/veriftools/wheels
exec 9>/verif/.setup.lock
flock 9
if [ -x "$VENV/bin/python" ] && "$VENV/bin/python" -c "import crosshair, z3, numpy, h5py, jsonschema" 2>/dev/null; then
  exit 0
fi
rm -rf "$VENV"
/venv/bin/python -m venv "$VENV"
SP=$("$VENV/bin/python" -c "import sysconfig; print(sysconfig.get_paths()['purelib'])")
echo "import site; site.addsitedir('/venv/lib/python3.12/site-packages')" > "$SP/_verif_overlay.pth"
PIP_NO_INDEX=1 "$VENV/bin/python" -m pip install -q --no-index --find-links "$WHEELS" crosshair-tool z3-solver jsonschema cvc5 >/dev/null
"$VENV/bin/python" -c "import crosshair, z3, numpy, h5py, jsonschema; print('verif venv ready: crosshair', crosshair.__version__ if hasattr(crosshair,'__version__') else '', 'z3', z3.get_version_string())"
