"""C04 - Deleting an entity removes it, what it owns and every link to it - nothing else.

PARTIAL claim.  Real code executed symbolically on fakeh5: Container.__delitem__,
SectionContainer.__delitem__, SourceContainer.__delitem__ (collection of the
subtree ids with find_sections / find_sources), H5Group.delete_all,
LinkContainer.__delitem__, H5Group.delete (incl. its delete-if-empty rule), the
metadata deleters of every entity class.

Decided here (nixio's Python side): WHICH ids are sent for deletion, that the
link-list and metadata deleters unlink only, that nothing else changes - on a file
with a rich link topology (one target linked from many lists, lists in two blocks,
equal names in different parents, nested sources and sections) and for every
choice of entity / link to remove, addressed by name, id, index or object.
NOT decided: that libhdf5's H5Ovisit really reaches every link and frees the
storage (fakeh5's visititems is pinned to h5py by the differential script, incl.
two delete-while-visiting scenarios, but remains a model).
"""
from vf.ob import Ob, assume, untraced
from vf import models, fakeh5, nixfake

PROPERTY = "C04"
PART = None
PATH = "/v/c04.nix"


def setup():
    models.install_quiet_format()
    nixfake.install()


def _pick(tbl, i):
    for k in range(len(tbl)):
        if i == k:
            return tbl[k]
    assume(False)


def _fixture():
    with untraced():
        return _fixture_c()


def _fixture_c():
    import nixio
    nixfake.begin()
    f = nixio.File(PATH, "w")
    E = {"file": f}
    sec = f.create_section("sec", "t")
    sub = sec.create_section("sub", "t")
    subsub = sub.create_section("sec", "t")            # same name as the top level
    sec.create_property("p", [1])
    sub.create_property("p", [2])
    other = f.create_section("other", "t")
    E.update(sec=sec, sub=sub, subsub=subsub, othersec=other)
    for bn in ("b1", "b2"):
        blk = f.create_block(bn, "t")
        a1 = blk.create_data_array("a1", "t", data=[1.0, 2.0])
        a2 = blk.create_data_array("a2", "t", data=[3.0, 4.0])
        a1.append_set_dimension(["x", "y"])
        tag = blk.create_tag("tg", "t", [0.0])
        tag.references.append(a1)
        tag.references.append(a2)
        tag.create_feature(a2, nixio.LinkType.Untagged)
        mt = blk.create_multi_tag("mt", "t", positions=a1)
        mt.extents = a2
        mt.references.append(a2)
        grp = blk.create_group("grp", "t")
        grp.data_arrays.append(a1)
        grp.data_arrays.append(a2)
        grp.tags.append(tag)
        grp.multi_tags.append(mt)
        s = blk.create_source("s", "t")
        s1 = s.create_source("s1", "t")
        s2 = s1.create_source("s", "t")                # same name as its grandparent
        a1.sources.append(s1)
        tag.sources.append(s2)
        grp.sources.append(s)
        grp.sources.append(s1)                         # parent AND child in one list
        mt2 = blk.create_multi_tag("mt2", "t", positions=a1)
        mt2.extents = a1                               # one array in two roles of one entity
        blk.metadata = sec
        a1.metadata = sub
        s1.metadata = subsub
        tag.metadata = other
        s2.metadata = other                            # a leaf source: nothing but the metadata link
        empty = blk.create_group("empty", "t")         # a group without members
        empty.metadata = sec
        mt.metadata = sub
        grp.metadata = other
        fr = blk.create_data_frame("fr", "t", col_names=["c", "d"], col_dtypes=[int, float], data=[(1, 0.5), (2, 1.5)])
        fr.metadata = sub
        tag.create_feature(fr, nixio.LinkType.Indexed)     # a frame as feature data
        grp.data_frames.append(fr)
        for k, v in (("blk", blk), ("a1", a1), ("a2", a2), ("tag", tag), ("mt", mt), ("grp", grp),
                     ("s", s), ("s1", s1), ("s2", s2), ("empty", empty), ("fr", fr)):
            E[bn + "." + k] = v
    # links that cross block borders (single links and dimension links are not restricted to the block)
    mtx = E["b2.blk"].create_multi_tag("mtx", "t", positions=E["b1.a1"])
    mtx.extents = E["b1.a2"]
    E["b2.a2"].append_range_dimension([1.0, 2.0]).link_data_array(E["b1.a1"], [-1])
    E["b1.a2"].append_range_dimension([1.0, 2.0]).link_data_array(E["b1.a1"], [-1])
    bare = f.create_block("bare", "t")                 # a block without any content, only a metadata link
    bare.metadata = other
    E["bare"] = bare
    return E


def _picture(f):
    # the picture is taken of concrete state (the choice of what to delete has been made):
    # the walk runs with the tracer suspended
    with untraced():
        return _picture_c(f)


def _picture_c(f):
    """API-level picture of the whole file: every container, list and link (by id)"""
    def md(e):
        try:
            m = e.metadata
            return None if m is None else m.id
        except Exception as ex:  # noqa
            return "ERR:" + type(ex).__name__

    def ids(lst):
        try:
            return [x.id for x in lst]
        except Exception as ex:  # noqa
            return "ERR:" + type(ex).__name__

    def srcs(container):
        return [{"id": s.id, "name": s.name, "md": md(s), "children": srcs(s.sources)} for s in container]

    def secs(container):
        return [{"id": s.id, "name": s.name, "props": [(p.id, p.name, list(p.values)) for p in s.props],
                 "children": secs(s.sections)} for s in container]
    pic = {"sections": secs(f.sections), "blocks": []}
    for b in f.blocks:
        bd = {"id": b.id, "name": b.name, "md": md(b), "sources": srcs(b.sources), "arrays": [], "tags": [],
              "mtags": [], "groups": []}
        for a in b.data_arrays:
            links = []
            for dm in a.dimensions:
                if getattr(dm, "has_link", False):
                    try:
                        links.append(dm.dimension_link.linked_data.id)
                    except Exception:  # noqa  the target of the link is gone
                        links.append("NOTARGET")
            bd["arrays"].append({"id": a.id, "name": a.name, "md": md(a), "sources": ids(a.sources),
                                 "ndim": len(a.dimensions), "dimlinks": links, "data": [float(x) for x in a[:]]})
        bd["frames"] = []
        for d in b.data_frames:
            bd["frames"].append({"id": d.id, "name": d.name, "md": md(d),
                                 "rows": [tuple(float(x) for x in r) for r in d[:]]})
        for t in b.tags:
            feats = []
            for ft in t.features:
                try:
                    feats.append(ft.data.id)
                except Exception as ex:  # noqa
                    feats.append("NODATA")
            bd["tags"].append({"id": t.id, "name": t.name, "md": md(t), "refs": ids(t.references),
                               "sources": ids(t.sources), "feats": feats})
        for m in b.multi_tags:
            try:
                pos = m.positions.id
            except Exception:  # noqa
                pos = None
            try:
                ext = None if m.extents is None else m.extents.id
            except Exception:  # noqa
                ext = None
            bd["mtags"].append({"id": m.id, "name": m.name, "md": md(m), "pos": pos, "ext": ext,
                                "refs": ids(m.references)})
        for g in b.groups:
            bd["groups"].append({"id": g.id, "name": g.name, "md": md(g), "das": ids(g.data_arrays), "tags": ids(g.tags),
                                 "frames": ids(g.data_frames),
                                 "mtags": ids(g.multi_tags), "sources": ids(g.sources)})
        pic["blocks"].append(bd)
    return pic


def _strip(pic, dead):
    """the expected picture: every occurrence of a dead id removed (entities, links)"""
    def lst(v):
        return [x for x in v if x not in dead] if isinstance(v, list) else v

    def srcs(v):
        return [dict(s, md=(None if s["md"] in dead else s["md"]), children=srcs(s["children"]))
                for s in v if s["id"] not in dead]

    def secs(v):
        return [dict(s, children=secs(s["children"]), props=[p for p in s["props"] if p[0] not in dead])
                for s in v if s["id"] not in dead]
    out = {"sections": secs(pic["sections"]), "blocks": []}
    for b in pic["blocks"]:
        if b["id"] in dead:
            continue
        nb = dict(b, md=None if b["md"] in dead else b["md"], sources=srcs(b["sources"]))
        nb["arrays"] = [dict(a, md=None if a["md"] in dead else a["md"], sources=lst(a["sources"]),
                             dimlinks=["NOTARGET" if x in dead else x for x in a["dimlinks"]])
                        for a in b["arrays"] if a["id"] not in dead]
        nb["frames"] = [dict(d, md=None if d["md"] in dead else d["md"])
                        for d in b["frames"] if d["id"] not in dead]
        nb["tags"] = [dict(t, md=None if t["md"] in dead else t["md"], refs=lst(t["refs"]),
                           sources=lst(t["sources"]),
                           feats=["NODATA" if x in dead else x for x in t["feats"]])
                      for t in b["tags"] if t["id"] not in dead]
        nb["mtags"] = [dict(m, md=None if m["md"] in dead else m["md"],
                            pos=None if m["pos"] in dead else m["pos"], ext=None if m["ext"] in dead else m["ext"],
                            refs=lst(m["refs"])) for m in b["mtags"] if m["id"] not in dead]
        nb["groups"] = [dict(g, md=None if g["md"] in dead else g["md"], das=lst(g["das"]), tags=lst(g["tags"]), mtags=lst(g["mtags"]),
                             frames=lst(g["frames"]),
                             sources=lst(g["sources"])) for g in b["groups"] if g["id"] not in dead]
        out["blocks"].append(nb)
    return out


def _owned(pic, eid):
    """ids of the entity and everything it owns, from the picture (independent of nixio)"""
    dead = set()

    def walk_src(s, inside):
        here = inside or s["id"] == eid
        if here:
            dead.add(s["id"])
        for c in s["children"]:
            walk_src(c, here)

    def walk_sec(s, inside):
        here = inside or s["id"] == eid
        if here:
            dead.add(s["id"])
            for p in s["props"]:
                dead.add(p[0])
        for p in s["props"]:
            if p[0] == eid:
                dead.add(p[0])
        for c in s["children"]:
            walk_sec(c, here)
    for s in pic["sections"]:
        walk_sec(s, False)
    for b in pic["blocks"]:
        whole = b["id"] == eid
        if whole:
            dead.add(b["id"])
        for k in ("arrays", "frames", "tags", "mtags", "groups"):
            for e in b[k]:
                if whole or e["id"] == eid:
                    dead.add(e["id"])
        for s in b["sources"]:
            walk_src(s, whole)
    return dead


# deletable things: (container getter, key kind)
def _targets(E):
    f = E["file"]
    b1 = E["b1.blk"]
    return [
        ("b1.a1", lambda: b1.data_arrays), ("b1.a2", lambda: b1.data_arrays), ("b1.tag", lambda: b1.tags),
        ("b1.mt", lambda: b1.multi_tags), ("b1.grp", lambda: b1.groups), ("b1.s", lambda: b1.sources),
        ("b1.s1", lambda: E["b1.s"].sources), ("b1.s2", lambda: E["b1.s1"].sources),
        ("sec", lambda: f.sections), ("sub", lambda: E["sec"].sections), ("subsub", lambda: E["sub"].sections),
        ("b1.blk", lambda: f.blocks), ("b2.a1", lambda: E["b2.blk"].data_arrays),
        ("bare", lambda: f.blocks), ("othersec", lambda: f.sections), ("b1.fr", lambda: b1.data_frames),
    ]


# ---------------------------------------------------------------------------
# 1. deleting an entity                       PART = addressing mode
# ---------------------------------------------------------------------------
def _ob_delete(ti: int) -> bool:
    """
    pre: 0 <= ti < 16
    post: __return__
    """
    how = PART
    E = _fixture()
    f = E["file"]
    before = _picture(f)
    key, cont = _pick(_targets(E), ti)
    ent = E[key]
    c = cont()
    if how == "name":
        del c[ent.name]
    elif how == "id":
        del c[ent.id]
    elif how == "object":
        del c[ent]
    else:
        pos = [x.id for x in c].index(ent.id)
        del c[pos]
    dead = _owned(before, ent.id)
    want = _strip(before, dead)
    got = _picture(f)
    return got == want


# ---------------------------------------------------------------------------
# 2. removing a link never deletes anything         PART = link kind
# ---------------------------------------------------------------------------
def _ob_unlink(li: int, by: int) -> bool:
    """
    pre: 0 <= li < 19 and 0 <= by < 3
    post: __return__
    """
    E = _fixture()
    f = E["file"]
    b1 = E["b1.blk"]
    before = _picture(f)
    links = [
        ("grp.das", lambda: E["b1.grp"].data_arrays, E["b1.a1"]), ("grp.tags", lambda: E["b1.grp"].tags, E["b1.tag"]),
        ("grp.mtags", lambda: E["b1.grp"].multi_tags, E["b1.mt"]), ("grp.sources", lambda: E["b1.grp"].sources, E["b1.s"]),
        ("tag.refs", lambda: E["b1.tag"].references, E["b1.a2"]), ("tag.sources", lambda: E["b1.tag"].sources, E["b1.s2"]),
        ("mt.refs", lambda: E["b1.mt"].references, E["b1.a2"]), ("a1.sources", lambda: E["b1.a1"].sources, E["b1.s1"]),
        ("md.blk", None, E["b1.blk"]), ("md.a1", None, E["b1.a1"]), ("md.s1", None, E["b1.s1"]),
        ("md.tag", None, E["b1.tag"]), ("md.s2", None, E["b1.s2"]), ("md.empty", None, E["b1.empty"]),
        ("md.mt", None, E["b1.mt"]), ("md.grp", None, E["b1.grp"]), ("md.bare", None, E["bare"]),
        ("md.fr", None, E["b1.fr"]), ("grp.frames", lambda: E["b1.grp"].data_frames, E["b1.fr"]),
    ]
    name, cont, item = _pick(links, li)
    if cont is None:
        assume(by == 0)
        del item.metadata
        want = _clear_md(before, item.id)
    else:
        c = cont()
        if by == 0:
            del c[item.id]
        elif by == 1:
            del c[item]
        else:
            del c[[x.id for x in c].index(item.id)]
        want = _remove_link(before, name, item.id)
    return _picture(f) == want


def _clear_md(pic, owner):
    import copy
    p = copy.deepcopy(pic)

    def walk(srcs):
        for s in srcs:
            if s["id"] == owner:
                s["md"] = None
            walk(s["children"])
    for b in p["blocks"]:
        if b["id"] == owner:
            b["md"] = None
        for k in ("arrays", "frames", "tags", "mtags", "groups"):
            for e in b[k]:
                if e["id"] == owner:
                    e["md"] = None
        walk(b["sources"])
    return p


def _remove_link(pic, name, target):
    import copy
    p = copy.deepcopy(pic)
    b = p["blocks"][0]
    field = {"grp.das": ("groups", "das"), "grp.tags": ("groups", "tags"), "grp.mtags": ("groups", "mtags"),
             "grp.sources": ("groups", "sources"), "tag.refs": ("tags", "refs"), "tag.sources": ("tags", "sources"),
             "mt.refs": ("mtags", "refs"), "a1.sources": ("arrays", "sources"),
             "grp.frames": ("groups", "frames")}[name]
    ent = b[field[0]][0]
    ent[field[1]] = [x for x in ent[field[1]] if x != target]
    return p


def validate():
    return {"fakeh5_vs_h5py": fakeh5.validate_against_h5py()}


def _real(fn_name, args):
    import os
    import shutil
    import tempfile
    global PATH
    tmp = tempfile.mkdtemp(prefix="vf_c04_")
    fakeh5.uninstall()
    old = PATH
    PATH = os.path.join(tmp, "t.nix")
    try:
        try:
            ok = globals()[fn_name](**args)
        except Exception as e:  # noqa
            import traceback
            return True, {"raised_on_real_stack": traceback.format_exc()[-600:]}
        return (not ok), {"holds_on_real_stack": ok}
    finally:
        PATH = old
        fakeh5.install()
        shutil.rmtree(tmp, ignore_errors=True)


OBLIGATIONS = [
    Ob("delete_entity", _ob_delete, timeout=1200, partition=["name", "id", "object", "index"],
       functions=["nixio.container.Container.__delitem__", "nixio.container.SectionContainer.__delitem__",
                  "nixio.container.SourceContainer.__delitem__", "nixio.hdf5.h5group.H5Group.delete_all",
                  "nixio.util.find._find_sections", "nixio.util.find._find_sources"],
       replay=lambda a: _real("_ob_delete", a),
       outside="one fixture file (two blocks with equal names, nested sources / sections with repeated "
               "names, every link kind); data frames; the storage actually freed (libhdf5)"),
    Ob("unlink_only", _ob_unlink, timeout=1200,
       functions=["nixio.container.LinkContainer.__delitem__", "nixio.hdf5.h5group.H5Group.delete",
                  "nixio.source.Source.metadata", "nixio.data_array.DataArray.metadata",
                  "nixio.block.Block.metadata", "nixio.tag.Tag.metadata"],
       replay=lambda a: _real("_ob_unlink", a)),
]

ASSUMPTIONS = ["H5Ovisit semantics (name order, every object once, links removed by the callback are not "
               "followed) as modelled by fakeh5.visititems - pinned against h5py by the differential "
               "script incl. two delete-while-visiting scenarios, but a model"]
