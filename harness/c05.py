"""C05 - Links are aliases of the original entity, never copies, and stay in their block.

Real code executed symbolically on fakeh5: LinkContainer.append / extend /
__contains__, SourceLinkContainer.append, Container.__contains__, Feature.data
setter, H5Group.create_link, Dimension.link_data_array / _check_index /
_check_link_dimensionality / remove_link, RangeDimension.ticks / unit / label /
is_alias, SetDimension.labels, DimensionLink.values / unit / label / index, the
attribute setters / getters of every entity reached through a link.

Partial claim: that an HDF5 hard link IS the same object is libhdf5's (fakeh5:
shared node; pinned by the differential script).  Decided here: the acceptance
predicate of every link list, the dimension-link index rules for all integer
index vectors up to length 3, ticks <-> link exclusivity, and that nixio reaches
the SAME stored object through every access path (it links, it does not copy).
"""
from vf.ob import Ob, assume, untraced
from vf import models, fakeh5, nixfake

PROPERTY = "C05"
PART = None
PATH = "/v/c05.nix"


def setup():
    models.install_quiet_format()
    nixfake.install()


def _pick(tbl, i):
    for k in range(len(tbl)):
        if i == k:
            return tbl[k]
    assume(False)


def _fixture():
    with untraced():
        return _fixture_c()


def _fixture_c():
    import nixio
    nixfake.begin()
    f = nixio.File(PATH, "w")
    E = {"file": f}
    for bn in ("b1", "b2"):                     # two blocks with the SAME entity names
        blk = f.create_block(bn, "t")
        E[bn] = blk
        E[bn + ".da"] = blk.create_data_array("da", "t", data=[[1.0, 2.0, 3.0], [4.0, 5.0, 6.0]])
        E[bn + ".vec"] = blk.create_data_array("vec", "t", data=[0.5, 1.5])
        E[bn + ".tag"] = blk.create_tag("tg", "t", [0.0, 0.0])
        E[bn + ".mt"] = blk.create_multi_tag("mt", "t", positions=E[bn + ".vec"])
        E[bn + ".grp"] = blk.create_group("grp", "t")
        E[bn + ".src"] = src = blk.create_source("src", "t")
        E[bn + ".src.child"] = src.create_source("child", "t")
        E[bn + ".src2"] = blk.create_source("child2", "t")
        E[bn + ".fr"] = blk.create_data_frame("fr", "t", col_names=["c", "d"], col_dtypes=[int, float],
                                               data=[(1, 0.5), (2, 1.5)])
    E["b2.src.deep"] = E["b2.src.child"].create_source("src2", "t")
    E["sec"] = f.create_section("sec", "t")
    return E


# ---------------------------------------------------------------------------
# 1. acceptance predicate of link lists      PART = list kind
# ---------------------------------------------------------------------------
ITEMS = ["b1.da", "b1.vec", "b2.da", "b2.vec", "b1.tag", "b2.tag", "b1.mt", "b2.mt", "b1.src",
         "b1.src.child", "b2.src", "b2.src.child", "b2.src.deep", "sec", "b1.grp"]


def _ob_accept(ii: int, jj: int) -> bool:
    """
    pre: 0 <= ii < 15 and 0 <= jj < 15
    post: __return__
    """
    import nixio
    kind = PART
    E = _fixture()
    lists = {
        "group.data_arrays": (E["b1.grp"].data_arrays, nixio.DataArray),
        "group.tags": (E["b1.grp"].tags, nixio.Tag),
        "group.multi_tags": (E["b1.grp"].multi_tags, nixio.MultiTag),
        "tag.references": (E["b1.tag"].references, nixio.DataArray),
        "multi_tag.references": (E["b1.mt"].references, nixio.DataArray),
        "data_array.sources": (E["b1.da"].sources, nixio.Source),
        "tag.sources": (E["b1.tag"].sources, nixio.Source),
        "group.sources": (E["b1.grp"].sources, nixio.Source),
    }
    cont, cls = lists[kind]
    for step, sel in enumerate((ii, jj)):
        key = _pick(ITEMS, sel)
        item = E[key]
        before = [x.id for x in cont]
        ok_kind = isinstance(item, cls)
        ok_block = key.startswith("b1.")
        try:
            cont.append(item)
            accepted = True
        except (RuntimeError, TypeError):
            accepted = False
        after = [x.id for x in cont]
        if accepted != (ok_kind and ok_block):
            return False
        if not accepted:
            if after != before:
                return False
        else:
            want = before if item.id in before else before + [item.id]
            if after != want:
                return False
            if not (item in cont and item.id in cont and cont[item.id].id == item.id):
                return False
    return True


FITEMS = ITEMS + ["b1.fr", "b2.fr"]


def _ob_feature_data(ii: int, lt: int, first: int) -> bool:
    """
    pre: 0 <= ii < 17 and 0 <= lt < 3 and 0 <= first < 2
    post: __return__
    """
    import nixio
    E = _fixture()
    tag = E["b1.tag"]
    ltype = _pick([nixio.LinkType.Untagged, nixio.LinkType.Tagged, nixio.LinkType.Indexed], lt)
    # the feature starts out on an array or (where the link type allows it) on a data frame
    start = E["b1.vec"] if (first == 0 or lt == 1) else E["b1.fr"]
    feat = tag.create_feature(start, ltype)
    key = _pick(FITEMS, ii)
    item = E[key]
    is_da, is_fr = isinstance(item, nixio.DataArray), isinstance(item, nixio.DataFrame)
    ok = key.startswith("b1.") and (is_da or (is_fr and lt != 1))
    try:
        feat.data = item
        accepted = True
    except Exception:  # noqa  any refusal
        accepted = False
    if accepted != ok:
        return False
    want = item if ok else start
    # the entity reached through the feature IS the linked one: same id, same kind, same content -
    # through this handle and through a new one
    for ft in (feat, tag.features[0]):
        d = ft.data
        if d.id != want.id or type(d) is not type(want) or d.name != want.name:
            return False
        if isinstance(want, nixio.DataArray):
            if list(d.shape) != list(want.shape):
                return False
        elif tuple(d.column_names) != tuple(want.column_names):
            return False
    return True


# ---------------------------------------------------------------------------
# 1c. a dimension linked to a COLUMN of a data frame: accepted iff 0 <= index < number of columns (any
#     integer); then ticks / labels are that column as it is NOW, the unit is the column's unit (None when
#     the frame has none), the label is the column's name; through this handle and a new one
# ---------------------------------------------------------------------------
def _ob_frame_link(idx: int, dk: int, with_units: bool, hist: int) -> bool:
    """
    pre: 0 <= dk < 2 and 0 <= hist < 3
    post: __return__
    """
    E = _fixture()
    host = E["b1.da"]                                  # rank 2
    with untraced():
        base = len(host.dimensions)
        fr = E["b1"].create_data_frame("cols", "t", col_names=["t", "name", "n"], col_dtypes=[float, str, int],
                                       data=[(0.5, "a", 7), (1.5, "b", 8)])
        if with_units:
            fr.units = ["ms", None, "mV"]
        rd = host.append_range_dimension([7.0, 8.0])
        sd = host.append_set_dimension(["q", "r", "s"])
    dim = rd if dk == 0 else sd
    if hist == 1:
        dim.link_data_frame(fr, 2)                     # history: linked to another column before
    elif hist == 2:
        dim.link_data_array(E["b1.vec"], [-1])         # history: linked to an array before
    before_ticks = list(rd.ticks) if dk == 0 else list(sd.labels)
    ok = 0 <= idx < 3
    try:
        dim.link_data_frame(fr, idx)
        accepted = True
    except Exception:  # noqa
        accepted = False
    if accepted != ok:
        return False
    if not ok:
        # refused: the dimension reports what it reported before
        return (list(rd.ticks) if dk == 0 else list(sd.labels)) == before_ticks
    col = [[0.5, 1.5], ["a", "b"], [7, 8]]
    names = ["t", "name", "n"]
    units = ["ms", None, "mV"] if with_units else [None, None, None]
    for k in range(3):
        if idx == k:
            want, wname, wunit = col[k], names[k], units[k]
    fresh = E["file"].blocks["b1"].data_arrays["da"].dimensions[base + dk]
    for d in (dim, fresh):
        got = [x.decode() if isinstance(x, bytes) else (x.item() if hasattr(x, "item") else x)
               for x in (d.ticks if dk == 0 else d.labels)]
        if got != want or not d.has_link:
            return False
        if dk == 0 and ((d.unit or None) != wunit or d.label != wname):     # "" and None both mean: no unit
            return False
    # the link is an alias: a cell written through the frame shows in the dimension at once
    new = [9.5, "z", 99]
    for k in range(3):
        if idx == k:
            fr.write_cell(new[k], position=[0, k])
            want = [new[k], want[1]]
    got = [x.decode() if isinstance(x, bytes) else (x.item() if hasattr(x, "item") else x)
           for x in (dim.ticks if dk == 0 else dim.labels)]
    return got == want


# ---------------------------------------------------------------------------
# 2. dimension link index rules, all integer vectors      PART = (dim kind, length)
# ---------------------------------------------------------------------------
def _ob_dim_link(i0: int, i1: int, i2: int, target: int, own_unit: bool, tgt_unit: bool) -> bool:
    """
    pre: 0 <= target < 2
    post: __return__
    """
    from nixio.exceptions import IncompatibleDimensions
    dkind, n = PART
    E = _fixture()
    host = E["b1.vec"]
    if dkind == "range":
        # history: the dimension may have had its own unit / label before it was linked
        dim = host.append_range_dimension([7.0, 8.0], label="own" if own_unit else None,
                                          unit="ms" if own_unit else None)
    else:
        dim = host.append_set_dimension(["q", "r"])
    tgt = _pick([E["b1.da"], E["b1.vec"]], target)        # rank 2 / rank 1
    rank = 2 if target == 0 else 1
    tgt.unit = "mV" if tgt_unit else None
    tgt.label = "lbl" if tgt_unit else None
    index = [i0, i1, i2][:n]
    minus = sum(1 for v in index if v == -1)
    neg = sum(1 for v in index if v < 0)
    valid = (n == rank) and minus == 1 and neg == 1
    try:
        dim.link_data_array(tgt, index)
        linked = True
    except (ValueError, IncompatibleDimensions):
        linked = False
    if linked != valid:
        return False
    if not linked:
        # nothing changed: still the explicit ticks / labels, no link
        if dim.has_link:
            return False
        if dkind == "range":
            return tuple(dim.ticks) == (7.0, 8.0)
        return tuple(dim.labels) == ("q", "r")
    # the link replaced the explicit ticks and reports the addressed vector
    if not dim.has_link or tuple(dim.dimension_link.index) != tuple(index):
        return False
    if dkind == "range" and "ticks" in dim._h5group:
        return False
    data = [[1.0, 2.0, 3.0], [4.0, 5.0, 6.0]] if target == 0 else [0.5, 1.5]
    try:
        vals = tuple(dim.ticks) if dkind == "range" else tuple(dim.labels)
    except IndexError:
        # the fixed coordinate lies outside the linked array
        if rank == 1:
            return False
        k = index[0] if index[1] == -1 else index[1]
        return k >= (2 if index[1] == -1 else 3)
    if rank == 1:
        want = tuple(data)
    elif index[1] == -1:
        if index[0] >= 2:
            return False
        want = tuple(data[index[0]])
    else:
        if index[1] >= 3:
            return False
        want = tuple(row[index[1]] for row in data)
    if tuple(float(v) for v in vals) != want:
        return False
    if dkind == "range":
        # unit and label are the linked array's CURRENT ones (also when it has none)
        if dim.unit != ("mV" if tgt_unit else None) or dim.label != ("lbl" if tgt_unit else None):
            return False
        # the link is live: a change of the array is a change of the ticks' unit
        tgt.unit = "kV"
        if dim.unit != "kV":
            return False
        # explicit ticks replace the link again
        dim.ticks = [1.0, 2.0]
        return (not dim.has_link) and tuple(dim.ticks) == (1.0, 2.0)
    return True


# ---------------------------------------------------------------------------
# 3. one stored object behind every access path      PART = linked entity kind
# ---------------------------------------------------------------------------
ATTRS = [("definition", "d1"), ("definition", None), ("type", "u"), ("label", "L"), ("unit", "mV"),
         ("expansion_origin", 2.5)]


def _ob_alias(wi: int, ai: int) -> bool:
    """
    pre: 0 <= wi < 8 and 0 <= ai < 6
    post: __return__
    """
    import nixio
    kind = PART
    E = _fixture()
    f = E["file"]
    blk, da, vec, tag, mt, grp, src, sec = (E["b1"], E["b1.da"], E["b1.vec"], E["b1.tag"], E["b1.mt"],
                                            E["b1.grp"], E["b1.src.child"], E["sec"])
    if kind == "data_array":
        grp.data_arrays.append(da)
        tag.references.append(da)
        mt.references.append(da)
        mt.extents = da
        tag.create_feature(da, nixio.LinkType.Untagged)
        rd = vec.append_range_dimension()
        rd.link_data_array(da, [0, -1])
        paths = [lambda: f.blocks["b1"].data_arrays["da"], lambda: f.blocks["b1"].groups["grp"].data_arrays[0],
                 lambda: f.blocks["b1"].tags["tg"].references["da"],
                 lambda: f.blocks["b1"].multi_tags["mt"].references[0],
                 lambda: f.blocks["b1"].multi_tags["mt"].extents,
                 lambda: f.blocks["b1"].tags["tg"].features[0].data,
                 lambda: f.blocks["b1"].data_arrays[da.id]]
        original = da
    elif kind == "source":
        da.sources.append(src)
        tag.sources.append(src)
        grp.sources.append(src)
        paths = [lambda: f.blocks["b1"].sources["src"].sources["child"],
                 lambda: f.blocks["b1"].data_arrays["da"].sources[0],
                 lambda: f.blocks["b1"].tags["tg"].sources[src.id],
                 lambda: f.blocks["b1"].groups["grp"].sources["child"],
                 lambda: f.blocks["b1"].find_sources(lambda s: s.id == src.id)[0]]
        original = src
    elif kind == "section":
        da.metadata = sec
        blk.metadata = sec
        tag.metadata = sec
        paths = [lambda: f.sections["sec"], lambda: f.blocks["b1"].data_arrays["da"].metadata,
                 lambda: f.blocks["b1"].metadata, lambda: f.blocks["b1"].tags["tg"].metadata,
                 lambda: f.find_sections(lambda s: s.id == sec.id)[0]]
        original = sec
    else:
        grp.tags.append(tag)
        paths = [lambda: f.blocks["b1"].tags["tg"], lambda: f.blocks["b1"].groups["grp"].tags[0],
                 lambda: f.blocks["b1"].groups["grp"].tags["tg"]]
        original = tag
    assume(wi < len(paths))
    attr, val = _pick(ATTRS, ai)
    assume(hasattr(type(original), attr))
    writer = _pick(paths, wi)()
    setattr(writer, attr, val)
    for p in paths:
        e = p()
        if e.id != original.id or getattr(e, attr) != val:
            return False
    # the same-named entity of the other block is untouched
    other = {"data_array": E["b2.da"], "source": E["b2.src.child"], "tag": E["b2.tag"]}.get(kind)
    if other is not None and val is not None and getattr(other, attr) == val:
        return False
    # removing the link from a list does not delete the entity
    if kind == "data_array":
        del grp.data_arrays[da.id]
        return len(grp.data_arrays) == 0 and "da" in f.blocks["b1"].data_arrays and \
            len(tag.references) == 1
    return True


# ---------------------------------------------------------------------------
# 4. two live wrappers of one link list stay the same list when it is emptied
#    through one of them and refilled through either        PART = list kind
# ---------------------------------------------------------------------------
def _ob_two_wrappers(k1: int, k2: int, via_other: bool) -> bool:
    """
    pre: 0 <= k1 < 2 and 0 <= k2 < 2
    post: __return__
    """
    import harness.c03 as c03
    return c03._empty_refill(PART, PATH, k1, k2, via_other)


def validate():
    return {"fakeh5_vs_h5py": fakeh5.validate_against_h5py()}


def _real(fn_name, args):
    import os
    import shutil
    import tempfile
    global PATH
    tmp = tempfile.mkdtemp(prefix="vf_c05_")
    fakeh5.uninstall()
    old = PATH
    PATH = os.path.join(tmp, "t.nix")
    try:
        try:
            a = dict(args)
            for k in ("i0", "i1", "i2"):
                if k in a:
                    a[k] = max(min(a[k], 2 ** 31), -2 ** 31)
            ok = globals()[fn_name](**a)
        except Exception as e:  # noqa
            import traceback
            return True, {"raised_on_real_stack": traceback.format_exc()[-600:]}
        return (not ok), {"holds_on_real_stack": ok}
    finally:
        PATH = old
        fakeh5.install()
        shutil.rmtree(tmp, ignore_errors=True)


_LISTS = ["group.data_arrays", "group.tags", "group.multi_tags", "tag.references", "multi_tag.references",
          "data_array.sources", "tag.sources", "group.sources"]
OBLIGATIONS = [
    Ob("link_list_acceptance", _ob_accept, timeout=1200, partition=_LISTS,
       functions=["nixio.container.LinkContainer.append", "nixio.container.Container.__contains__",
                  "nixio.source_link_container.SourceLinkContainer.append",
                  "nixio.hdf5.h5group.H5Group.create_link"],
       replay=lambda a: _real("_ob_accept", a),
       outside="data frame lists (data frames do not work with the installed NumPy); "
               "MultiTag.positions / extents are single links, not lists - only aliasing is asserted"),
    Ob("data_frame_column_link", _ob_frame_link, timeout=600,
       functions=["nixio.dimensions.Dimension.link_data_frame", "nixio.dimensions.DimensionLink.values",
                  "nixio.dimensions.DimensionLink.unit", "nixio.dimensions.DimensionLink.label",
                  "nixio.dimensions.RangeDimension.ticks", "nixio.dimensions.SetDimension.labels"],
       replay=lambda a: _real("_ob_frame_link", a),
       outside="one frame of three columns (float, text, int), with and without units; the column index is any "
               "integer; range and set dimension; with and without an earlier link"),
    Ob("feature_data_acceptance", _ob_feature_data, timeout=600,
       functions=["nixio.feature.Feature.data"], replay=lambda a: _real("_ob_feature_data", a)),
    Ob("dimension_link_index", _ob_dim_link, timeout=900,
       partition=[(k, n) for k in ("range", "set") for n in (1, 2, 3)],
       functions=["nixio.dimensions.Dimension.link_data_array", "nixio.dimensions.Dimension._check_index",
                  "nixio.dimensions.Dimension._check_link_dimensionality",
                  "nixio.dimensions.DimensionLink.values", "nixio.dimensions.RangeDimension.ticks",
                  "nixio.dimensions.RangeDimension.unit", "nixio.dimensions.SetDimension.labels"],
       replay=lambda a: _real("_ob_dim_link", a),
       outside="links to data frames; linked arrays of rank > 2"),
    Ob("two_wrappers_of_one_list", _ob_two_wrappers, timeout=600,
       partition=["group.data_arrays", "tag.references", "data_array.sources"],
       functions=["nixio.container.LinkContainer.append", "nixio.container.LinkContainer.__delitem__",
                  "nixio.hdf5.h5group.H5Group.delete", "nixio.hdf5.h5group.H5Group._create_h5obj"],
       replay=lambda a: _real("_ob_two_wrappers", a)),
    Ob("one_object_behind_every_path", _ob_alias, timeout=900,
       partition=["data_array", "source", "section", "tag"],
       functions=["nixio.hdf5.h5group.H5Group.create_link", "nixio.container.LinkContainer.__getitem__",
                  "nixio.feature.Feature.data", "nixio.multi_tag.MultiTag.extents"],
       replay=lambda a: _real("_ob_alias", a),
       outside="that an HDF5 hard link is the same object on disk and after reopening (libhdf5)"),
]

ASSUMPTIONS = ["fakeh5: a hard link is the shared node (differentially validated against h5py)"]
