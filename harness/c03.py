"""C03 - Names are unique per parent, ids are unique, and all lookups agree.

Real code executed symbolically on fakeh5: nixio.util.util.check_entity_name /
check_entity_name_and_type, nixio.util.names.check, Entity.create_new, every
create_* with its duplicate check, Container.{__len__, __iter__, __getitem__,
__contains__, __delitem__, items}, SectionContainer / SourceContainer
.__delitem__, LinkContainer.{append, __getitem__, __contains__, __delitem__},
H5Group.{get_by_pos, get_by_id_or_name, get_by_id, get_by_name, has_by_id, delete,
delete_all}.

Names are symbolic selectors over a table that contains names sorting against
creation order, a 32-hex-digit name, canonical UUID text, urn:uuid: and brace
forms, a non-ASCII name and a 300-character name.  Ids come from a deterministic
counter (uuid4 randomness is outside the claim); creation order and hard links
are those of fakeh5 (pinned against h5py by the differential script).
"""
from vf.ob import Ob, assume, untraced
from vf import models, fakeh5, nixfake

PROPERTY = "C03"
PART = None
PATH = "/v/c03.nix"

HEX32 = "0123456789abcdef0123456789abcdef"
NAMES = ["b", "a", HEX32, "123e4567-e89b-42d3-a456-426614174000", "äß", "n" * 300,
         "urn:uuid:123e4567-e89b-42d3-a456-426614174001", "{123e4567-e89b-42d3-a456-426614174002}",
         "=ID-OF-FIRST"]
QUICK_NAMES = [0, 1, 2, 8]          # indices into NAMES used in the quick tier


def setup():
    models.install_quiet_format()
    nixfake.install()


def _pick(tbl, i):
    for k in range(len(tbl)):
        if i == k:
            return tbl[k]
    assume(False)


# container kinds: name -> (make parent(s), create(name) -> entity, container getter)
def _kind(kind):
    import nixio
    nixfake.begin()
    f = nixio.File(PATH, "w")
    if kind == "blocks":
        return f, (lambda n: f.create_block(n, "t")), (lambda: f.blocks)
    if kind == "sections":
        return f, (lambda n: f.create_section(n, "t")), (lambda: f.sections)
    if kind == "subsections":
        sec = f.create_section("parent", "t")
        f.create_section("other", "t").create_section("b", "t")      # same names elsewhere
        return f, (lambda n: sec.create_section(n, "t")), (lambda: f.sections["parent"].sections)
    if kind == "properties":
        sec = f.create_section("parent", "t")
        return f, (lambda n: sec.create_property(n, [1])), (lambda: f.sections["parent"].props)
    blk = f.create_block("blk", "t")
    other = f.create_block("other", "t")
    if kind == "data_arrays":
        other.create_data_array("b", "t", data=[1.0])
        return f, (lambda n: blk.create_data_array(n, "t", data=[1.0])), (lambda: f.blocks["blk"].data_arrays)
    if kind == "data_frames":
        other.create_data_frame("b", "t", col_names=["c"], col_dtypes=[int])
        return f, (lambda n: blk.create_data_frame(n, "t", col_names=["c"], col_dtypes=[int], data=[(1,)])), \
            (lambda: f.blocks["blk"].data_frames)
    if kind == "tags":
        return f, (lambda n: blk.create_tag(n, "t", [1.0])), (lambda: f.blocks["blk"].tags)
    if kind == "multi_tags":
        pos = blk.create_data_array("positions", "t", data=[1.0])
        return f, (lambda n: blk.create_multi_tag(n, "t", positions=pos)), (lambda: f.blocks["blk"].multi_tags)
    if kind == "groups":
        return f, (lambda n: blk.create_group(n, "t")), (lambda: f.blocks["blk"].groups)
    if kind == "sources":
        other.create_source("b", "t")
        return f, (lambda n: blk.create_source(n, "t")), (lambda: f.blocks["blk"].sources)
    if kind == "subsources":
        src = blk.create_source("parent", "t")
        blk.create_source("b", "t")
        return f, (lambda n: src.create_source(n, "t")), (lambda: f.blocks["blk"].sources["parent"].sources)
    if kind == "group_links":
        grp = blk.create_group("grp", "t")

        def mk(n):
            da = blk.create_data_array(n, "t", data=[1.0])
            grp.data_arrays.append(da)
            return da
        return f, mk, (lambda: f.blocks["blk"].groups["grp"].data_arrays)
    if kind == "source_links":
        # a list of links to sources that live at DEPTH 2 of the block's source tree
        da = blk.create_data_array("da", "t", data=[1.0])
        top = blk.create_source("top", "t")
        blk.create_source("b", "t")                      # the same names exist at the top level, unlinked

        def mk(n):
            s2 = top.create_source(n, "t")
            da.sources.append(s2)
            return s2
        return f, mk, (lambda: f.blocks["blk"].data_arrays["da"].sources)
    raise KeyError(kind)


KINDS = ["blocks", "sections", "subsections", "properties", "data_arrays", "data_frames", "tags", "multi_tags",
         "groups", "sources", "subsources", "group_links", "source_links"]


def _agree(cont, want):
    """every lookup of container `cont` describes the sequence `want` = [(name, id)]"""
    from nixio.util import is_uuid
    if len(cont) != len(want):
        return False
    got = [(e.name, e.id) for e in cont]
    if got != want:
        return False
    if [(k, e.name) for k, e in cont.items()] != [(i, n) for n, i in want]:
        return False
    ids = [i for _, i in want]
    if len(set(ids)) != len(ids):
        return False
    for pos, (n, i) in enumerate(want):
        if not is_uuid(i):
            return False
        if n not in ids:
            # (a name that is character for character the id of a sibling is
            # ambiguous by design: the id takes precedence - not asserted)
            e = cont[n]
            if e.id != i or e.name != n:
                return False
        e = cont[i]
        if e.id != i or e.name != n:
            return False
        if cont[pos].id != i or cont[pos - len(want)].id != i:
            return False
        if not ((n in cont or n in ids) and i in cont and e in cont):
            return False
    return True


# ---------------------------------------------------------------------------
# a. name validation on free symbolic strings
# ---------------------------------------------------------------------------
def _ob_name_check(s: str) -> bool:
    """
    pre: len(s) <= 6
    post: __return__
    """
    from nixio.util import check_entity_name
    try:
        check_entity_name(s)
        refused = False
    except ValueError:
        refused = True
    return refused == (len(s) == 0 or "/" in s)


# ---------------------------------------------------------------------------
# b. create / duplicate / delete, lookups by name, id, membership, iteration
#    PART = (container kind, delete-by mode, name table indices)
# ---------------------------------------------------------------------------
def _ob_create_lookup(n1: int, n2: int, which: int, mid: bool) -> bool:
    """
    pre: 0 <= n1 < 9 and 0 <= n2 < 9
    pre: 0 <= which < 3
    post: __return__
    """
    from nixio.exceptions import DuplicateName
    kind, how, table, pairs = PART
    assume(n1 < len(table) and n2 < len(table))
    if how != "none" and pairs is not None:
        assume((n1, n2) in pairs)        # quick tier: deletion histories on two name pairs only
    f, create, cont = _kind(kind)
    names = [NAMES[_pick(table, n1)], NAMES[_pick(table, n2)], "zz"]
    want = []
    made = []
    for n in names:
        if n == "=ID-OF-FIRST":
            # a legal name that is, character for character, the id of a sibling
            n = want[0][1] if want else "first"
        try:
            e = create(n)
        except DuplicateName:
            if n not in [w[0] for w in want]:
                # (a name equal to a sibling's id is ambiguous by design - outside the claim)
                assume(n not in [w[1] for w in want])
                return False            # a fresh name must be accepted
            continue
        if n in [w[0] for w in want]:
            return False                # a duplicate must be refused
        want.append((n, e.id))
        made.append(e)
    c = cont()                       # ONE container object for the whole history
    if not _agree(c, want):
        return False
    if how == "none":
        return True
    assume(which < len(want))
    victim = want[which]
    if how == "name":
        assume(victim[0] not in [w[1] for w in want])      # ambiguous: id takes precedence
        del c[victim[0]]
    elif how == "id":
        del c[victim[1]]
    elif how == "index":
        del c[which]
    else:
        del c[made[which]]
    rest = [w for w in want if w != victim]
    allnames = [w[0] for w in want]
    allids = [w[1] for w in want]
    ambiguous = victim[0] in allids or victim[1] in allnames
    if how == "name":
        assume(not ambiguous)
    if mid and not ambiguous:
        if victim[0] in c or victim[1] in c:
            return False
        try:
            c[victim[0]]
            return False
        except KeyError:
            pass
    if mid:
        if not _agree(c, rest):
            return False
    # the name is free again and gets a new id, appended at the end
    if kind in ("group_links", "source_links"):
        e = made[which]                  # unlinking does not delete the entity: it is linked again
        c.append(e)
    else:
        e = create(victim[0])
        if e.id in [w[1] for w in want]:
            return False
    after = rest + [(victim[0], e.id)]
    return _agree(c, after) and _agree(cont(), after)


# ---------------------------------------------------------------------------
# c. positional indexing for ALL integers   PART = container kind
# ---------------------------------------------------------------------------
def _ob_index(i: int, ndel: int) -> bool:
    """
    pre: 0 <= ndel < 4
    post: __return__
    """
    kind = PART
    f, create, cont = _kind(kind)
    want = []
    for n in ("b", "a", HEX32):
        e = create(n)
        want.append((n, e.id))
    if ndel < 3:
        c = cont()
        del c[want[ndel][0]]
        want = [w for k, w in enumerate(want) if k != ndel]
    c = cont()
    L = len(want)
    try:
        e = c[i]
    except IndexError:
        return not (-L <= i < L)
    if not (-L <= i < L):
        return False
    return (e.name, e.id) == want[i if i >= 0 else i + L]


# ---------------------------------------------------------------------------
# d. a list that is emptied and filled again (through ONE entity object) is the
#    same list for every other handle         PART = list kind
# ---------------------------------------------------------------------------
def _ob_empty_refill(k1: int, k2: int, via_other: bool) -> bool:
    """
    pre: 0 <= k1 < 2 and 0 <= k2 < 2
    post: __return__
    """
    return _empty_refill(PART, PATH, k1, k2, via_other)


def _empty_refill(kind, path, k1, k2, via_other):
    # (no contract on this helper: it is also called from harness.c05, and CrossHair
    # enforces the contracts of callees)
    import nixio
    nixfake.begin()
    f = nixio.File(path, "w")
    blk = f.create_block("blk", "t")
    a = blk.create_data_array("a", "t", data=[1.0])
    b = blk.create_data_array("b", "t", data=[2.0])
    src = blk.create_source("s", "t")
    if kind == "group.data_arrays":
        owner = blk.create_group("g", "t")
        get = lambda o: o.data_arrays                                   # noqa
        fresh = lambda: f.blocks["blk"].groups["g"]                     # noqa
        items = [a, b]
    elif kind == "tag.references":
        owner = blk.create_tag("tg", "t", [0.0])
        get = lambda o: o.references                                    # noqa
        fresh = lambda: f.blocks["blk"].tags["tg"]                      # noqa
        items = [a, b]
    elif kind == "data_array.sources":
        owner = a
        get = lambda o: o.sources                                       # noqa
        fresh = lambda: f.blocks["blk"].data_arrays["a"]                # noqa
        items = [src, blk.create_source("s2", "t")]
    else:
        sec = f.create_section("sec", "t")
        owner = sec
        get = None
    other = fresh()
    lst = get(owner)
    olst = get(other)                  # a second live wrapper with the list already instantiated
    first = _pick(items, k1)
    lst.append(first)
    if [x.id for x in olst] != [first.id]:
        return False
    del lst[first.id]                  # now empty (the container group may be dropped)
    if len(lst) != 0 or len(olst) != 0:
        return False
    second = _pick(items, k2)
    (olst if via_other else lst).append(second)
    want = [second.id]
    return [x.id for x in lst] == want and [x.id for x in olst] == want and \
        [x.id for x in get(fresh())] == want


# ---------------------------------------------------------------------------
# ids are never rewritten: a copy (with kept or with fresh ids) made from any entity leaves the
# id of EVERY pre-existing entity as it was, all lookups by id still agree, and - with fresh
# ids - no id occurs twice in the file
# ---------------------------------------------------------------------------
def _id_map(f):
    """(kind path) -> id for every entity reachable through the API"""
    out = {}

    def srcs(cont, path):
        for s in cont:
            out[path + "/src:" + s.name] = s.id
            srcs(s.sources, path + "/src:" + s.name)

    def secs(cont, path):
        for s in cont:
            out[path + "/sec:" + s.name] = s.id
            for p in s.props:
                out[path + "/sec:" + s.name + "/prop:" + p.name] = p.id
            secs(s.sections, path + "/sec:" + s.name)
    secs(f.sections, "")
    for b in f.blocks:
        bp = "/blk:" + b.name
        out[bp] = b.id
        for a in b.data_arrays:
            out[bp + "/da:" + a.name] = a.id
        for t in b.tags:
            out[bp + "/tag:" + t.name] = t.id
        for m in b.multi_tags:
            out[bp + "/mt:" + m.name] = m.id
        for g in b.groups:
            out[bp + "/grp:" + g.name] = g.id
        srcs(b.sources, bp)
    return out


def _ob_ids_stable(ci: int, keep: bool) -> bool:
    """
    pre: 0 <= ci < 7
    post: __return__
    """
    import nixio
    nixfake.begin()
    with untraced():
        f = nixio.File(PATH, "w")
        sec = f.create_section("sec", "t")
        sec.create_property("p", [1])
        sub = sec.create_section("sub", "t")
        sub.create_property("q", ["x"])
        sub.create_section("deep", "t")
        blk = f.create_block("blk", "t")
        a = blk.create_data_array("a", "t", data=[1.0])
        b = blk.create_data_array("b", "t", data=[2.0])
        tg = blk.create_tag("tg", "t", [0.0])
        tg.references.append(a)
        mt = blk.create_multi_tag("mt", "t", positions=b)
        mt.references.append(a)
        grp = blk.create_group("g", "t")
        grp.data_arrays.append(a)
        grp.data_arrays.append(b)
        grp.tags.append(tg)
        src = blk.create_source("s", "t")
        child = src.create_source("c", "t")
        a.sources.append(child)
        other = f.create_block("other", "t")
    before = _id_map(f)
    held = {"a": (a, a.id), "tg": (tg, tg.id), "sub": (sub, sub.id), "child": (child, child.id)}
    if ci == 0:
        f.create_block("blk2", copy_from=blk, keep_copy_id=keep)
    elif ci == 1:
        other.create_data_array("a", copy_from=a, keep_copy_id=keep)
    elif ci == 2:
        other.create_tag("tg", copy_from=tg, keep_copy_id=keep)
    elif ci == 3:
        other.create_multi_tag("mt", copy_from=mt, keep_copy_id=keep)
    elif ci == 4:
        f.copy_section(sec, keep_id=keep, name="sec2")
    elif ci == 5:
        sec.copy_section(sub, keep_id=keep, name="sub2")
    else:
        sub.create_property("p2", copy_from=sec.props["p"], keep_copy_id=keep)
    after = _id_map(f)
    # every pre-existing entity still has the id it had
    for path, eid in before.items():
        if after.get(path) != eid:
            return False
    for h, eid in held.values():
        if h.id != eid:                                 # ... also seen through handles held all along
            return False
    # lookups of the original still agree
    if not (a.id in grp.data_arrays and a in grp.data_arrays and grp.data_arrays[a.id].name == "a" and
            a.id in tg.references and child.id in a.sources and blk.data_arrays[a.id].name == "a" and
            sec.sections[sub.id].name == "sub" and tg.id in grp.tags):
        return False
    new = [v for k, v in after.items() if k not in before]
    if not new:
        return False                                    # the copy is there
    if not keep:
        allids = list(after.values())
        if len(set(allids)) != len(allids):
            return False                                # fresh ids: no id twice in the file
    return True


def validate():
    return {"fakeh5_vs_h5py": fakeh5.validate_against_h5py()}


# ---------------------------------------------------------------------------
# real-stack replay
# ---------------------------------------------------------------------------
def _real(fn_name, args):
    import os
    import shutil
    import tempfile
    import nixio.util as U
    import nixio.util.util as UU
    global PATH
    tmp = tempfile.mkdtemp(prefix="vf_c03_")
    fakeh5.uninstall()
    old = PATH
    PATH = os.path.join(tmp, "t.nix")
    try:
        try:
            ok = globals()[fn_name](**args)
        except Exception as e:  # noqa  an unexpected exception is a failure of the property too
            return True, {"raised_on_real_stack": "%s: %s" % (type(e).__name__, str(e)[:200])}
        return (not ok), {"holds_on_real_stack": ok}
    finally:
        PATH = old
        fakeh5.install()
        shutil.rmtree(tmp, ignore_errors=True)


def _parts(tier):
    table = QUICK_NAMES if tier == "quick" else list(range(len(NAMES)))
    hows = ["none", "name", "id", "index"] if tier == "quick" else ["none", "name", "id", "index", "object"]
    # deletion histories run on selected name pairs (positions in `table`); all pairs only without deletion
    pairs = ((0, 1), (2, 3)) if tier == "quick" else ((0, 1), (2, 3), (4, 5), (6, 7), (8, 0), (1, 8), (3, 3))
    return [(k, h, tuple(table), pairs) for k in KINDS for h in hows]


OBLIGATIONS = [
    Ob("name_validation", _ob_name_check, timeout=300,
       functions=["nixio.util.util.check_entity_name", "nixio.util.names.check"],
       outside="strings longer than 6 characters; the '.' and NUL restrictions of HDF5 itself"),
    Ob("create_duplicate_delete_lookup", _ob_create_lookup, timeout=900,
       partition_by_tier={"quick": _parts("quick"), "thorough": _parts("thorough")},
       functions=["nixio.container.Container.__getitem__", "nixio.container.Container.__contains__",
                  "nixio.container.Container.__delitem__", "nixio.hdf5.h5group.H5Group.get_by_id_or_name",
                  "nixio.hdf5.h5group.H5Group.get_by_pos", "nixio.hdf5.h5group.H5Group.delete_all",
                  "nixio.entity.Entity.create_new"],
       replay=lambda a: _real("_ob_create_lookup", a),
       outside="quick: 4 of the 9 table names, deletion histories on two name pairs; a name that "
               "is character for character the id of a sibling is ambiguous by design (the id takes "
               "precedence) - only lookups by id are asserted for it; data frames (not working "
               "with the installed NumPy); reopening (libhdf5)"),
    Ob("ids_stable_under_copy", _ob_ids_stable, timeout=600,
       functions=["nixio.hdf5.h5group.H5Group.copy", "nixio.block.Block._copy_objects",
                  "nixio.file.File.copy_section", "nixio.section.Section.copy_section"],
       replay=lambda a: _real("_ob_ids_stable", a),
       outside="seven copy operations on one fixture; ids come from the counter stub (uniqueness of uuid4 is "
               "randomness)"),
    Ob("link_list_emptied_and_refilled", _ob_empty_refill, timeout=600,
       partition=["group.data_arrays", "tag.references", "data_array.sources"],
       functions=["nixio.container.LinkContainer.append", "nixio.container.LinkContainer.__delitem__",
                  "nixio.hdf5.h5group.H5Group.delete", "nixio.hdf5.h5group.H5Group._create_h5obj",
                  "nixio.hdf5.h5group.H5Group.create_link"],
       replay=lambda a: _real("_ob_empty_refill", a)),
    Ob("positional_index_all_integers", _ob_index, timeout=600, partition=KINDS,
       functions=["nixio.container.Container.__getitem__", "nixio.hdf5.h5group.H5Group.get_by_pos"],
       replay=lambda a: _real("_ob_index", a)),
]

ASSUMPTIONS = ["ids come from a deterministic counter stub of util.create_id (uuid4 randomness is "
               "outside the claim)",
               "creation-order iteration, hard links and H5Ovisit order are those of fakeh5 "
               "(differentially validated against h5py each run)"]
