"""C16 - A data frame is a faithful table of named, typed columns.

PARTIAL claim.  Real code executed symbolically on fakeh5: Block.create_data_frame (schema
derivation for the four creation variants, duplicate column detection, text columns),
DataFrame.create_new / append_column / append_rows / write_column / write_rows / write_cell /
read_rows / read_cell / read_columns / units / columns / column_names / dtype / df_shape /
row_count, DataSet.append / __getitem__ / _read_data / _write_data, H5DataSet.read_data
(_convert_string_cols) / write_data / shape.

What is symbolic: the schema, the creation variant, the number of rows, the operation, the row
index (an unbounded integer), the column index (an integer in [-8, 8]: NumPy's record indexing
is a C boundary that realises the value), name selectors, the lengths of appended rows /
columns.  Cell values are concrete (tables).  The table itself lives in a real NumPy
structured array inside fakeh5 (h5py's selection rules for 1-d tables are pinned to h5py by
the differential script), so NumPy's record / dtype semantics are the real ones.

NOT decided: that libhdf5 stores compound rows faithfully on disk and after reopen (the
"reopen" below is a fresh File on the same object store: it decides that nixio keeps no state
of its own, not persistence).
"""
from collections import OrderedDict

import numpy as np

from vf.ob import Ob, assume, untraced
from vf import models, fakeh5, nixfake

PROPERTY = "C16"
PART = None
PATH = "/v/c16.nix"


def setup():
    models.install_quiet_format()
    nixfake.install()


def _pick(tbl, i):
    for k in range(len(tbl)):
        if i == k:
            return tbl[k]
    assume(False)


# ---------------------------------------------------------------------------
# schemas and rows (concrete tables; the solver picks among them)
# ---------------------------------------------------------------------------
SCHEMAS = [
    [("name", str), ("id", int)],
    [("x", float)],
    [("name", str), ("id", int), ("x", float), ("ok", bool), ("k", np.int8)],
    [("a", np.int16), ("b", np.uint8), ("c", str), ("d", float), ("e", bool), ("f", int)],
]
_CELL = {str: ["a", "b", "", "dd"], int: [1, -2, 3, 40], float: [1.5, -2.5, 0.0, 4.25],
         bool: [True, False, True, False], np.int8: [3, -4, 5, 6], np.int16: [300, -4, 5, 6],
         np.uint8: [200, 0, 7, 8]}
_NEW = {str: ["n1", "n2"], int: [71, 72], float: [7.5, 8.5], bool: [False, True], np.int8: [9, 10],
        np.int16: [-301, 302], np.uint8: [250, 251]}
_KIND = {str: "O", int: "i8", float: "f8", bool: "b1", np.int8: "i1", np.int16: "i2", np.uint8: "u1"}


def _rows(schema, n):
    return [tuple(_CELL[t][i] for _, t in schema) for i in range(n)]


def _newrow(schema, j):
    return tuple(_NEW[t][j] for _, t in schema)


def _plain(v):
    if isinstance(v, np.ndarray):
        return [_plain(x) for x in v]
    if isinstance(v, np.void):
        return tuple(_plain(x) for x in v)
    if isinstance(v, np.generic):
        return v.item()
    if isinstance(v, (list, tuple)):
        return type(v)(_plain(x) for x in v)
    return v


class Table:
    """the oracle: what the calls made so far say the table is"""

    def __init__(self, names, kinds, rows):
        self.names, self.kinds, self.rows, self.units = list(names), list(kinds), [tuple(r) for r in rows], None

    def copy(self):
        t = Table(self.names, self.kinds, self.rows)
        t.units = None if self.units is None else list(self.units)
        return t

    def picture(self):
        return {"names": tuple(self.names), "kinds": tuple(self.kinds), "rows": list(self.rows),
                "df_shape": (len(self.rows), len(self.names)), "units": self.units}


def _kind_of(dt):
    dt = np.dtype(dt)
    if dt == np.dtype("O"):
        return "O"
    return dt.str.lstrip("<|=>")


def _observe(df):
    # the table is concrete whenever it is observed (cell values are concrete, the symbolic choices have been
    # made): the walk runs with the tracer suspended
    with untraced():
        return _observe_c(df)


def _observe_c(df):
    """everything the public API reports about the table"""
    units = df.units
    rows = [tuple(r) for r in _plain(df[:])]
    pic = {"names": tuple(df.column_names), "kinds": tuple(_kind_of(d) for d in df.dtype), "rows": rows,
           "df_shape": tuple(df.df_shape), "units": None if units is None else list(_plain(units))}
    n = len(rows)
    # every report of the row count agrees
    if not (df.row_count() == n and len(df) == n and tuple(df.shape) == (n,)):
        return {"bad": "row counts disagree: %r %r %r vs %d rows" % (df.row_count(), len(df), df.shape, n)}
    if pic["units"] is not None and len(pic["units"]) != len(pic["names"]):
        return {"bad": "units has %d entries for %d columns" % (len(pic["units"]), len(pic["names"]))}
    cols = df.columns
    if len(cols) != len(pic["names"]):
        return {"bad": "columns lists %d of %d columns" % (len(cols), len(pic["names"]))}
    for i, (nm, dt, u) in enumerate(cols):
        wantu = None if pic["units"] is None else pic["units"][i]
        if nm != pic["names"][i] or _kind_of(dt) != pic["kinds"][i] or (u or None) != (wantu or None):
            return {"bad": "columns[%d] = %r does not describe the column" % (i, (nm, str(dt), u))}
    # reading row by row and column by column returns the same cells
    for i in range(n):
        if tuple(_plain(df.read_rows(i))) != rows[i]:
            return {"bad": "read_rows(%d) differs from the table" % i}
    for j, nm in enumerate(pic["names"]):
        col = [r[j] for r in rows]
        if list(_plain(df[nm])) != col:
            return {"bad": "df[%r] differs from the table" % nm}
        if list(_plain(df.read_columns(index=[j]))) != col or list(_plain(df.read_columns(name=[nm]))) != col:
            return {"bad": "read_columns of column %d differs from the table" % j}
    return pic


WHY = []


def _no(reason):
    WHY.append(reason)
    return False


def _same(pic, tab):
    if "bad" in pic:
        return _no(pic["bad"])
    want = tab.picture()
    for k in want:
        if pic[k] != want[k]:
            return _no("%s: reported %r, the calls made say %r" % (k, pic[k], want[k]))
    return True


# ---------------------------------------------------------------------------
# creation
# ---------------------------------------------------------------------------
def _create(blk, name, schema, variant, n):
    """-> (data frame, Table) ; variant: 0 col_dict, 1 names + dtypes, 2 names + data, 3 structured array"""
    rows = _rows(schema, n)
    names = [c for c, _ in schema]
    kinds = [_KIND[t] for _, t in schema]
    if variant == 0:
        df = blk.create_data_frame(name, "t", col_dict=OrderedDict(schema), data=rows if n else None)
    elif variant == 1:
        df = blk.create_data_frame(name, "t", col_names=names, col_dtypes=[t for _, t in schema],
                                   data=rows if n else None)
    elif variant == 2:
        # types derived from the first row: Python int -> int64 ...
        df = blk.create_data_frame(name, "t", col_names=names, data=rows)
        kinds = [_KIND[type(v)] for v in rows[0]]
    else:
        arr = np.array(rows, dtype=[(c, "U4" if t is str else t) for c, t in schema])
        df = blk.create_data_frame(name, "t", data=arr)
    return df, Table(names, kinds, rows)


def _ob_create(sc: int, variant: int, n: int) -> bool:
    """
    pre: 0 <= sc < 4
    pre: 0 <= variant < 4
    pre: 0 <= n <= 3
    post: __return__
    """
    nixfake.begin()
    with untraced():
        import nixio
        f = nixio.File(PATH, "w")
        blk = f.create_block("b", "t")
    return _run_create(f, blk, sc, variant, n)


def _run_create(f, blk, sc, variant, n):
    del WHY[:]
    schema = _pick(SCHEMAS, sc)
    n = _pick([0, 1, 2, 3], n)
    variant = _pick([0, 1, 2, 3], variant)
    if variant >= 2 and n == 0:
        # nothing to derive the schema from: must be refused, nothing created
        try:
            if variant == 2:
                blk.create_data_frame("d", "t", col_names=[c for c, _ in schema])
            else:
                blk.create_data_frame("d", "t", data=None)
        except Exception:  # noqa
            return len(blk.data_frames) == 0 or _no("refused creation left a frame behind")
        return _no("creation without any type information accepted")
    df, tab = _create(blk, "d", schema, variant, n)
    if not _same(_observe(df), tab):
        return False
    if not _same(_observe(blk.data_frames["d"]), tab):
        return False
    # a duplicate column name is refused and leaves nothing behind
    names = [c for c, _ in schema] + [schema[0][0]]
    try:
        blk.create_data_frame("dup", "t", col_names=names, col_dtypes=[t for _, t in schema] + [int])
        return _no("duplicate column name accepted")
    except Exception:  # noqa
        pass
    if [x.name for x in blk.data_frames] != ["d"]:
        return _no("refused creation left a frame behind")
    return _same(_observe(df), tab)


# ---------------------------------------------------------------------------
# one operation on an existing table
# ---------------------------------------------------------------------------
OPS = ["write_row", "write_two_rows", "write_column_by_index", "write_column_by_name", "write_cell_by_position",
       "write_cell_by_name", "append_rows", "append_column", "set_units", "refused_writes", "read_cell"]


def _norm(i, n):
    """Python-style index: position in [0, n) or None"""
    if 0 <= i < n:
        return i
    if -n <= i < 0:
        return i + n
    return None


def _apply(df, tab, op, r, r2, c, s1, s2):
    """perform one operation through the public API; -> (outcome, expected table(s))
    outcome: 'ok' | 'refused'; expected: list of acceptable tables after the call"""
    n, m = len(tab.rows), len(tab.names)
    schema_t = None
    new0 = tuple(_newcell(k, 0) for k in tab.kinds)
    new1 = tuple(_newcell(k, 1) for k in tab.kinds)
    same = tab.copy()

    def call(fn):
        try:
            fn()
            return "ok"
        except Exception as e:  # noqa
            WHY.append("(call raised %s: %s)" % (type(e).__name__, str(e)[:80]))
            return "refused"

    if op == "write_row":
        out = call(lambda: df.write_rows([new0], [r]))
        p = _norm(r, n)
        if p is None:
            return out, [], [same]
        t = tab.copy()
        t.rows[p] = new0
        # a negative in-range index may be refused or address row r + n; 0 <= r < n must work
        return out, [t], ([same] if r < 0 else [])
    if op == "write_two_rows":
        out = call(lambda: df.write_rows([new0, new1], [r, r2]))
        p, q = _norm(r, n), _norm(r2, n)
        if p is None or q is None or p == q:
            return out, [], [same]
        t = tab.copy()
        t.rows[p], t.rows[q] = new0, new1
        # the backend wants increasing positions; anything else may be refused
        strict = 0 <= r < r2 < n
        return out, [t], ([] if strict else [same])
    if op in ("write_column_by_index", "write_column_by_name"):
        if op == "write_column_by_index":
            j = _norm(c, m)
            strict = 0 <= c < m
        else:
            nm = _pick(tab.names + ["zz"], s1)
            j = tab.names.index(nm) if nm in tab.names else None
            strict = True
        if j is None:
            col = [_newcell(tab.kinds[0], 0)] * n
        else:
            col = [_newcell(tab.kinds[j], (i + 1) % 2) for i in range(n)]
        if op == "write_column_by_index":
            out = call(lambda: df.write_column(col, index=c))
        else:
            out = call(lambda: df.write_column(col, name=nm))
        if j is None:
            # an unknown column of a table without rows addresses no cell: either answer is fine
            return out, ([same] if n == 0 else []), [same]
        t = tab.copy()
        t.rows = [row[:j] + (col[i],) + row[j + 1:] for i, row in enumerate(t.rows)]
        return out, [t], ([] if strict else [same])
    if op in ("write_cell_by_position", "write_cell_by_name"):
        if op == "write_cell_by_position":
            j = _norm(c, m)
            strict = 0 <= c < m and 0 <= r < n
        else:
            nm = _pick(tab.names + ["zz"], s1)
            j = tab.names.index(nm) if nm in tab.names else None
            strict = 0 <= r < n
        p = _norm(r, n)
        cell = _newcell(tab.kinds[j if j is not None else 0], 1)
        if op == "write_cell_by_position":
            out = call(lambda: df.write_cell(cell, position=[r, c]))
        else:
            out = call(lambda: df.write_cell(cell, col_name=nm, row_idx=[r]))
        if j is None or p is None:
            return out, [], [same]
        t = tab.copy()
        row = t.rows[p]
        t.rows[p] = row[:j] + (cell,) + row[j + 1:]
        return out, [t], ([] if strict else [same])
    if op == "append_rows":
        k = _pick([0, 1, 2], s1)
        ragged = _pick([False, True], s2)
        rows = [new0, new1][:k]
        if ragged:
            assume(k > 0)
            rows = rows[:-1] + [rows[-1] + (1,)]
        out = call(lambda: df.append_rows(rows))
        if ragged:
            return out, [], [same]
        t = tab.copy()
        t.rows = t.rows + rows
        return out, [t], []
    if op == "append_column":
        ln = _pick([n, n - 1, n + 1], s1)
        assume(ln >= 0)
        nm, explicit = _pick([("fresh", False), ("fresh", True), (tab.names[0], False), (tab.names[-1], True)], s2 % 4)
        badtype = s2 >= 4                                  # a column type that cannot be stored
        # the new column: text when the table starts with a number column and vice versa
        txt = tab.kinds[0] != "O"
        col = [("t%d" % i if txt else 10 + i) for i in range(ln)]
        if ln == 0:
            # an empty column has no first cell to take the type from
            explicit = True
        from nixio import DataType
        dtyp = (str if txt else DataType.Int64) if explicit else None
        if badtype:
            dtyp = object
        out = call(lambda: df.append_column(col, nm, datatype=dtyp))
        if ln != n or nm in tab.names or badtype:
            return out, [], [same]
        t = tab.copy()
        t.names.append(nm)
        t.kinds.append("O" if txt else "i8")
        t.rows = [row + (col[i],) for i, row in enumerate(t.rows)]
        if t.units is not None:
            t.units.append(None)
        return out, [t], []
    if op == "set_units":
        which = _pick([0, 1, 2], s1)
        if which == 0:
            u = ["mV"] * m
            want = list(u)
        elif which == 1:
            u = [None] * m
            want = [None] * m
        else:
            u = ["s"] + [""] * (m - 1)
            want = ["s"] + [None] * (m - 1)

        def setu():
            df.units = u
        out = call(setu)
        t = tab.copy()
        t.units = want
        return out, [t], []
    if op == "refused_writes":
        which = _pick([0, 1, 2, 3], s1)
        if which == 0:      # two rows for one index
            out = call(lambda: df.write_rows([new0, new1], [0]))
        elif which == 1:    # a column of the wrong length
            out = call(lambda: df.write_column([_newcell(tab.kinds[0], 0)] * (n + 1), index=0))
        elif which == 2:    # a row with one cell too many
            assume(n > 0)
            out = call(lambda: df.write_rows([new0 + (1,)], [0]))
        else:               # neither index nor name
            out = call(lambda: df.write_column([_newcell(tab.kinds[0], 0)] * n))
        return out, [], [same]
    assume(False)


_NEWCELL = {"O": ["n1", "n2"], "i8": [71, 72], "f8": [7.5, 8.5], "b1": [False, True], "i1": [9, 10],
            "i2": [-301, 302], "u1": [250, 251]}


def _newcell(kind, j):
    return _NEWCELL[kind][j]


def _check_reads(df, tab, r, c):
    """cells addressed by (row, column) in both documented ways"""
    n, m = len(tab.rows), len(tab.names)
    p, j = _norm(r, n), _norm(c, m)
    try:
        v = _plain(df.read_cell(position=[r, c]))
        got = ("ok", v)
    except Exception:  # noqa
        got = ("refused", None)
    if p is None or j is None:
        if got[0] != "refused":
            return _no("read_cell(position=[%r, %r]) outside the table returned %r" % (r, c, got[1]))
    elif got[0] == "refused":
        if 0 <= r and 0 <= c:
            return _no("read_cell(position=[%r, %r]) refused" % (r, c))
    elif got[1] != tab.rows[p][j]:
        return _no("read_cell(position=[%r, %r]) = %r, table says %r" % (r, c, got[1], tab.rows[p][j]))
    if j is not None:
        try:
            v = _plain(df.read_cell(col_name=tab.names[j], row_idx=[r]))
            got = ("ok", v)
        except Exception:  # noqa
            got = ("refused", None)
        if p is None:
            if got[0] != "refused":
                return _no("read_cell(row_idx=[%r]) outside the table returned a value" % (r,))
        elif got[0] == "refused":
            if 0 <= r:
                return _no("read_cell(col_name, row_idx=[%r]) refused" % (r,))
        elif got[1] != tab.rows[p][j]:
            return _no("read_cell(col_name=%r, row_idx=[%r]) = %r, table says %r"
                       % (tab.names[j], r, got[1], tab.rows[p][j]))
    # a single row by integer
    try:
        got = ("ok", tuple(_plain(df.read_rows(r))))
    except Exception:  # noqa
        got = ("refused", None)
    if p is None:
        if got[0] != "refused":
            return _no("read_rows(%r) outside the table returned a row" % (r,))
    elif got[0] == "refused":
        if 0 <= r:
            return _no("read_rows(%r) refused" % (r,))
    elif got[1] != tab.rows[p]:
        return _no("read_rows(%r) returned another row" % (r,))
    return True


def _judge(df, tab, res, reopen):
    """compare the state after an operation with the acceptable tables -> new oracle or None"""
    out, must, may = res
    pic = _observe(df)
    if "bad" in pic:
        _no(pic["bad"])
        return None
    cands = (must if out == "ok" else []) + (may if out == "refused" or not must else [])
    if out == "ok" and not must:
        _no("a write that must be refused was accepted")
        return None
    if out == "refused" and not may:
        _no("a legal write was refused")
        return None
    if out == "refused":
        cands = may
    else:
        cands = must
    for t in cands:
        want = t.picture()
        if all(pic[k] == want[k] for k in want):
            fresh = reopen()
            if fresh is not None:
                pf = _observe(fresh)
                if "bad" in pf or any(pf[k] != want[k] for k in want):
                    _no("a fresh handle sees another table than the session: %r" % (pf,))
                    return None
            return t
    want = cands[0].picture()
    _no("after %s: %r" % (out, {k: (pic[k], want[k]) for k in want if pic[k] != want[k]}))
    return None


def _run_ops(blk, sc, variant, n, ops, reopen):
    """ops: list of (op, r, r2, c, s1, s2)"""
    del WHY[:]
    schema = _pick(SCHEMAS, sc)
    n = _pick([0, 1, 2, 3], n)
    variant = _pick([0, 1, 3], variant)
    if variant == 3:
        assume(n > 0)
    df, tab = _create(blk, "d", schema, variant, n)
    df2 = blk.data_frames["d"]              # a second live handle of the same frame ...
    if "bad" in _observe(df2):              # ... that has read the table before anything happens
        return _no("second handle: " + _observe(df2)["bad"])
    for step in ops:
        (op, r, r2, c, s1, s2) = step[:6]
        h = df2 if (len(step) > 6 and step[6]) else df
        if op == "read_cell":
            if not _check_reads(h, tab, r, c):
                return False
            continue
        res = _apply(h, tab, op, r, r2, c, s1, s2)
        tab = _judge(h, tab, res, reopen)
        if tab is None:
            return False
        # ... and both handles describe the same table afterwards
        other = df if h is df2 else df2
        if not _same(_observe(other), tab):
            WHY.append("(seen through the other live handle)")
            return False
    return True


def _fake_fixture():
    nixfake.begin()
    with untraced():
        import nixio
        f = nixio.File(PATH, "w")
        blk = f.create_block("b", "t")

    def reopen():
        import nixio
        g = nixio.File(PATH, "r")
        return g.blocks["b"].data_frames["d"]
    return f, blk, reopen


def _ob_one_op(variant: int, n: int, r: int, r2: int, c: int, s1: int, s2: int) -> bool:
    """
    pre: 0 <= variant < 3
    pre: 0 <= n <= 3
    pre: -8 <= c <= 8
    pre: 0 <= s1 < 7
    pre: 0 <= s2 < 5
    post: __return__
    """
    op, sc = PART
    m = len(SCHEMAS[sc])
    f, blk, reopen = _fake_fixture()
    if op not in ("write_two_rows",):
        assume(r2 == 0)
    if op in ("write_column_by_index", "write_column_by_name", "append_rows", "append_column", "set_units",
              "refused_writes"):
        assume(r == 0)
    if op not in ("write_column_by_index", "write_cell_by_position", "read_cell"):
        assume(c == 0)
    else:
        assume(-m - 2 <= c <= m + 1)
    if op not in ("write_row", "append_rows", "append_column"):
        assume(variant == 0)
    return _run_ops(blk, sc, variant, n, [(op, r, r2, c, s1, s2)], reopen)


def _ob_two_ops(n: int, op2: int, s1: int, r_b: int, c_b: int, s1_b: int, s2_b: int, va: bool, vb: bool) -> bool:
    """
    pre: 1 <= n <= 2
    pre: 0 <= op2 < 10
    pre: 0 <= s1 < 2
    pre: -8 <= c_b <= 8
    pre: 0 <= s1_b < 7
    pre: 0 <= s2_b < 5
    post: __return__
    """
    op1, sc, hsel = PART
    if hsel is not None:                   # the partition pins which handle each operation goes through
        assume(va == hsel[0] and vb == hsel[1])
    f, blk, reopen = _fake_fixture()
    o2 = _pick(OPS[:10], op2)
    m = len(SCHEMAS[sc]) + 1
    if o2 in ("write_column_by_index", "write_column_by_name", "append_rows", "append_column", "set_units",
              "refused_writes"):
        assume(r_b == 0)
    if o2 not in ("write_column_by_index", "write_cell_by_position"):
        assume(c_b == 0)
    else:
        assume(-m - 1 <= c_b <= m)
    # first operation: a legal one with fixed addressing (last row / last column), one selector free;
    # second operation: everything symbolic; then reads of the cell addressed by the second one
    # each operation goes through the first (False) or the second (True) live handle; the reads follow the
    # handle of the second operation
    return _run_ops(blk, sc, 0, n, [(op1, n - 1, 0, len(SCHEMAS[sc]) - 1, s1, 0, va),
                                    (o2, r_b, r_b + 1, c_b, s1_b, s2_b, vb),
                                    ("read_cell", r_b, 0, c_b, 0, 0, vb)], reopen)


def validate():
    return {"fakeh5_vs_h5py": fakeh5.validate_against_h5py()}


# ---------------------------------------------------------------------------
# real-stack replays
# ---------------------------------------------------------------------------
def _real(fn):
    import os
    import shutil
    import tempfile
    nixfake.uninstall()
    tmp = tempfile.mkdtemp(prefix="vf_c16_")
    try:
        import nixio
        path = os.path.join(tmp, "c16.nix")
        f = nixio.File(path, "w")
        blk = f.create_block("b", "t")
        opened = []

        def reopen():
            # real HDF5: a second handle on the open file is not possible for every driver;
            # flush and read through a fresh Block / DataFrame wrapper instead
            f.flush()
            return f.blocks["b"].data_frames["d"]
        try:
            ok = fn(f, blk, reopen)
            detail = {"holds_on_real_stack": ok, "why": list(WHY)}
        except Exception:  # noqa
            import traceback
            ok = False
            detail = {"exception_on_real_stack": traceback.format_exc()[-1500:]}
        finally:
            for fl in [f] + opened:
                try:
                    fl.close()
                except Exception:  # noqa
                    pass
        return (not ok), detail
    finally:
        shutil.rmtree(tmp, ignore_errors=True)


def _replay_create(args):
    return _real(lambda f, blk, reopen: _run_create(f, blk, args["sc"], args["variant"], args["n"]))


def _replay_one(args):
    return _real(lambda f, blk, reopen: _run_ops(
        blk, PART[1], args["variant"], args["n"],
        [(PART[0], args["r"], args["r2"], args["c"], args["s1"], args["s2"])], reopen))


def _replay_two(args):
    a = args
    op1, sc = PART[:2]
    n = a["n"]
    return _real(lambda f, blk, reopen: _run_ops(
        blk, sc, 0, n,
        [(op1, n - 1, 0, len(SCHEMAS[sc]) - 1, a["s1"], 0, a["va"]),
         (OPS[a["op2"]], a["r_b"], a["r_b"] + 1, a["c_b"], a["s1_b"], a["s2_b"], a["vb"]),
         ("read_cell", a["r_b"], 0, a["c_b"], 0, 0, a["vb"])], reopen))


_FUNCS = ["nixio.block.Block.create_data_frame", "nixio.data_frame.DataFrame.create_new",
          "nixio.data_frame.DataFrame.append_column", "nixio.data_frame.DataFrame.append_rows",
          "nixio.data_frame.DataFrame.write_column", "nixio.data_frame.DataFrame.write_rows",
          "nixio.data_frame.DataFrame.write_cell", "nixio.data_frame.DataFrame.read_rows",
          "nixio.data_frame.DataFrame.read_cell", "nixio.data_frame.DataFrame.read_columns",
          "nixio.data_set.DataSet.append", "nixio.hdf5.h5dataset.H5DataSet.read_data",
          "nixio.hdf5.h5dataset.H5DataSet.write_data"]

OBLIGATIONS = [
    Ob("creation_variants", _ob_create, timeout=600,
       functions=["nixio.block.Block.create_data_frame", "nixio.data_frame.DataFrame.create_new",
                  "nixio.hdf5.h5dataset.H5DataSet.read_data"],
       replay=_replay_create,
       outside="four schemas of 1-6 columns (text, int64, float64, bool, int8, int16, uint8), 0-3 rows, the "
               "four creation variants; cell values are fixed per type"),
    Ob("one_operation", _ob_one_op, timeout=900,
       partition_by_tier={"quick": [(op, sc) for op in OPS for sc in (0, 2)],
                          "thorough": [(op, sc) for op in OPS for sc in range(4)]},
       functions=_FUNCS, replay=_replay_one,
       outside="row index: every integer; column index: -8..8; one operation on a freshly created table; "
               "negative in-range indices may be refused or address position index + count"),
    Ob("two_operations", _ob_two_ops, timeout=1500,
       partition_by_tier={
           "quick": [("append_column", 0, (False, True)), ("append_rows", 0, (False, True)),
                     ("set_units", 0, (True, False)), ("append_column", 1, (False, False)),
                     ("write_column_by_index", 0, (False, True))],
           "thorough": [(op, sc, hs) for op in OPS[:9] for sc in range(3)
                        for hs in ((False, False), (False, True), (True, False))]},
       functions=_FUNCS, replay=_replay_two,
       outside="histories of two operations followed by reads, each through either of two live handles of the frame: "
               "the first one legal with fixed addressing (last row / last column), the second one fully "
               "symbolic (row index unbounded); 1-2 initial rows, "
               "col_dict creation; longer histories"),
]

ASSUMPTIONS = ["fakeh5 1-d compound tables = real NumPy structured arrays + h5py's selection rules (pinned by the "
               "differential script each run)",
               "cell values are concrete; NumPy's conversion of cells to the column type is NumPy's"]
