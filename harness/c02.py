"""C02 - Closing and reopening a file reproduces the complete observable state.

PARTIAL claim.  That bytes survive close + reopen is libhdf5's.  nixio's own share
of the property is that it keeps NO state of its own: every getter and setter goes
straight to the backend, containers are re-derived on access, and the state is
independent of how many handles to an entity were used.  Decided here, on fakeh5:
after any two operations from a table of 55 API calls (set / clear attributes,
write / append data, create, delete, link, unlink, dimension changes - applied
through long-lived handles that had already been read from, or through second
handles of the same entities), the complete observable state read through the
session's long-lived handles equals the state read through a freshly opened File
on the same store (read-only and read-write), and equals it again after the
session file is closed.
"""
from vf.ob import Ob, assume, untraced
from vf import models, fakeh5, nixfake

PROPERTY = "C02"
PART = None
PATH = "/v/c02.nix"


def setup():
    models.install_quiet_format()
    nixfake.install()


def _pick(tbl, i):
    for k in range(len(tbl)):
        if i == k:
            return tbl[k]
    assume(False)


def _fixture():
    with untraced():
        return _fixture_c()


def _fixture_c():
    import nixio
    nixfake.begin()
    f = nixio.File(PATH, "w")
    E = {"file": f}
    E["sec"] = sec = f.create_section("sec", "t")
    E["prop"] = sec.create_property("p", [1, 2])
    E["sprop"] = sec.create_property("s", ["t"])
    E["sub"] = sec.create_section("sub", "t")
    E["blk"] = blk = f.create_block("blk", "t")
    E["da"] = da = blk.create_data_array("da", "t", data=[1.0, 2.0, 3.0], label="l", unit="mV")
    E["da2"] = da2 = blk.create_data_array("da2", "t", data=[[0.5], [1.5]])
    E["sdim"] = da.append_sampled_dimension(0.5, unit="ms", offset=1.0)
    E["rdim"] = da2.append_range_dimension([1.0, 2.0], unit="s")
    E["setdim"] = da2.append_set_dimension(["a"])
    E["tag"] = tag = blk.create_tag("tg", "t", [0.5])
    tag.extent = [1.0]
    tag.units = ["ms"]
    tag.references.append(da)
    E["feat"] = tag.create_feature(da2, nixio.LinkType.Untagged)
    E["mt"] = mt = blk.create_multi_tag("mt", "t", positions=da2)
    mt.references.append(da)
    E["grp"] = grp = blk.create_group("grp", "t")
    grp.data_arrays.append(da)
    E["src"] = src = blk.create_source("src", "t")
    E["child"] = src.create_source("child", "t")
    da.sources.append(src)
    da.metadata = sec
    E["fr"] = blk.create_data_frame("fr", "t", col_names=["c", "d", "e"], col_dtypes=[int, float, str],
                                    data=[(1, 0.5, "x"), (2, 1.5, "y")])
    E["fr"].units = ["mV", None, None]
    # second long-lived handles of the same entities (obtained by navigation)
    b2 = f.blocks["blk"]
    E["blk_b"], E["da_b"], E["da2_b"], E["tag_b"], E["mt_b"], E["grp_b"] = (
        b2, b2.data_arrays["da"], b2.data_arrays["da2"], b2.tags["tg"], b2.multi_tags["mt"], b2.groups["grp"])
    E["fr_b"] = b2.data_frames["fr"]
    E["sec_b"] = f.sections["sec"]
    E["prop_b"] = E["sec_b"].props["p"]
    E["sprop_b"] = E["sec_b"].props["s"]
    E["sdim_b"] = E["da_b"].dimensions[0]
    E["rdim_b"] = E["da2_b"].dimensions[0]
    E["setdim_b"] = E["da2_b"].dimensions[1]
    return E


def _g(fn):
    try:
        return fn()
    except Exception as e:  # noqa
        return "ERR:" + type(e).__name__


def _vals(x):
    import numpy as np
    if isinstance(x, str):
        return x
    try:
        return [(_vals(v) if isinstance(v, (list, tuple, np.ndarray)) else
                 (v.item() if hasattr(v, "item") else v)) for v in x]
    except TypeError:
        return x.item() if hasattr(x, "item") else x


def _ent(e):
    return {"id": e.id, "name": e.name, "type": e.type, "definition": e.definition,
            "created_at": e.created_at, "updated_at": e.updated_at}


def _dim(d):
    out = {"kind": type(d).__name__, "index": d.index}
    for a in ("unit", "label", "offset", "sampling_interval"):
        if hasattr(type(d), a):
            out[a] = _g(lambda a=a: getattr(d, a))
    if hasattr(type(d), "ticks"):
        out["ticks"] = _g(lambda: _vals(d.ticks))
        out["link"] = _g(lambda: d.has_link)
    if hasattr(type(d), "labels"):
        out["labels"] = _g(lambda: list(d.labels))
    return out


def _state(f, H=None):
    """complete observable state; H (id -> long-lived handle) overrides navigation"""
    H = H or {}

    def h(e):
        return H.get(e.id, e)

    def md(e):
        m = e.metadata
        return None if m is None else m.id

    def sources(cont):
        return [dict(_ent(h(s)), md=_g(lambda s=s: md(h(s))), children=sources(h(s).sources)) for s in cont]

    def sections(cont):
        out = []
        for s in cont:
            s = h(s)
            d = _ent(s)
            d.update(repository=s.repository, reference=s.reference,
                     props=[{"id": h(p).id, "name": h(p).name, "values": _g(lambda p=p: _vals(h(p).values)),
                             "unit": h(p).unit, "definition": h(p).definition,
                             "uncertainty": h(p).uncertainty} for p in s.props],
                     children=sections(s.sections))
            out.append(d)
        return out
    st = {"sections": sections(f.sections), "blocks": [],
          "file": {"created_at": f.created_at, "format": f.format}}
    for b in f.blocks:
        b = h(b)
        bd = _ent(b)
        bd.update(md=_g(lambda: md(b)), sources=sources(b.sources), arrays=[], tags=[], mtags=[], groups=[])
        for a in b.data_arrays:
            a = h(a)
            ad = _ent(a)
            ad.update(label=a.label, unit=a.unit, origin=a.expansion_origin,
                      coeff=_g(lambda a=a: _vals(a.polynom_coefficients)), shape=_g(lambda a=a: list(a.shape)),
                      data=_g(lambda a=a: _vals(a[:])), md=_g(lambda a=a: md(a)),
                      sources=_g(lambda a=a: [s.id for s in a.sources]),
                      dims=_g(lambda a=a: [_dim(h2(H, a, i, d)) for i, d in enumerate(a.dimensions)]))
            bd["arrays"].append(ad)
        bd["frames"] = []
        for d in b.data_frames:
            d = h(d)
            dd = _ent(d)
            dd.update(columns=_g(lambda d=d: list(d.column_names)), kinds=_g(lambda d=d: [str(x) for x in d.dtype]),
                      rows=_g(lambda d=d: [_vals(list(r)) for r in d[:]]), df_shape=_g(lambda d=d: list(d.df_shape)),
                      units=_g(lambda d=d: None if d.units is None else _vals(d.units)))
            bd["frames"].append(dd)
        for t in b.tags:
            t = h(t)
            td = _ent(t)
            td.update(position=_g(lambda t=t: _vals(t.position)), extent=_g(lambda t=t: _vals(t.extent)),
                      units=_g(lambda t=t: list(t.units)), refs=_g(lambda t=t: [r.id for r in t.references]),
                      feats=_g(lambda t=t: [(ft.id, str(ft.link_type), _g(lambda ft=ft: ft.data.id))
                                            for ft in t.features]), md=_g(lambda t=t: md(t)))
            bd["tags"].append(td)
        for m in b.multi_tags:
            m = h(m)
            mdc = _ent(m)
            mdc.update(pos=_g(lambda m=m: m.positions.id), ext=_g(lambda m=m: None if m.extents is None else m.extents.id),
                       units=_g(lambda m=m: list(m.units)), refs=_g(lambda m=m: [r.id for r in m.references]))
            bd["mtags"].append(mdc)
        for g in b.groups:
            g = h(g)
            gd = _ent(g)
            gd.update(das=[x.id for x in g.data_arrays], tags=[x.id for x in g.tags])
            bd["groups"].append(gd)
        st["blocks"].append(bd)
    return st


def h2(H, arr, i, d):
    # a long-lived descriptor handle is only meaningful while the descriptor it was
    # created for still exists (same kind at that index)
    old = H.get((arr.id, i))
    return old if (old is not None and type(old) is type(d)) else d


def _ops(E):
    """(label, action) - applied through the long-lived handles of the session"""
    import nixio
    blk, da, da2, tag, mt, grp, sec, prop = (E["blk"], E["da"], E["da2"], E["tag"], E["mt"], E["grp"],
                                             E["sec"], E["prop"])
    f = E["file"]
    return [
        ("da.label", lambda: setattr(da, "label", "L2")),
        ("da.label=None", lambda: setattr(da, "label", None)),
        ("da.unit", lambda: setattr(da, "unit", "kV")),
        ("da.definition", lambda: setattr(da, "definition", "d")),
        ("blk.type", lambda: setattr(blk, "type", "u")),
        ("da.origin", lambda: setattr(da, "expansion_origin", 2.0)),
        ("da.coeff", lambda: setattr(da, "polynom_coefficients", [1.0, 2.0])),
        ("tag.position", lambda: setattr(tag, "position", [1.5])),
        ("tag.extent=None", lambda: setattr(tag, "extent", None)),
        ("tag.units", lambda: setattr(tag, "units", ["s"])),
        ("mt.units", lambda: setattr(mt, "units", ["ms"])),
        ("sec.repository", lambda: setattr(sec, "repository", "r")),
        ("prop.values", lambda: setattr(prop, "values", [7])),
        ("prop.unit", lambda: setattr(prop, "unit", "mV")),
        ("sdim.offset", lambda: setattr(E["sdim"], "offset", 3.0)),
        ("sdim.unit", lambda: setattr(E["sdim"], "unit", "s")),
        ("rdim.ticks", lambda: setattr(E["rdim"], "ticks", [5.0, 6.0])),
        ("setdim.labels", lambda: setattr(E["setdim"], "labels", ["z"])),
        ("rdim.link", lambda: E["rdim"].link_data_array(da2, [-1, 0])),
        ("da.write", lambda: da.write_direct([7.0, 8.0, 9.0])),
        ("da[1]=", lambda: da.__setitem__(1, 5.0)),
        ("da.append", lambda: da.append([4.0])),
        ("create array", lambda: blk.create_data_array("new", "t", data=[1.0])),
        ("create property", lambda: sec.create_property("q", ["x"])),
        ("create source", lambda: E["src"].create_source("n", "t")),
        ("create feature", lambda: tag.create_feature(da, nixio.LinkType.Tagged)),
        ("append dim", lambda: da.append_set_dimension(["u", "v", "w"])),
        ("del da2", lambda: blk.data_arrays.__delitem__("da2")),
        ("del prop", lambda: sec.props.__delitem__("p")),
        ("unlink grp", lambda: grp.data_arrays.__delitem__(da.id)),
        ("del metadata", lambda: da.__class__.metadata.fdel(da)),
        ("delete dims", lambda: da.delete_dimensions()),
        ("link grp", lambda: grp.data_arrays.append(da2)),
        ("mt.extents", lambda: setattr(mt, "extents", da)),
        # the same attribute through a SECOND handle of the entity
        ("da.label via 2nd handle", lambda: setattr(f.blocks["blk"].data_arrays["da"], "label", "via2")),
        ("tag.position via group", lambda: setattr(f.blocks["blk"].tags["tg"], "position", [9.0])),
        ("force created_at via 2nd", lambda: f.blocks["blk"].data_arrays["da"].force_created_at(5)),
        ("sdim.interval via 2nd", lambda: setattr(f.blocks["blk"].data_arrays["da"].dimensions[0],
                                                   "sampling_interval", 0.25)),
        # link lists emptied / refilled through the first and through the SECOND long-lived handle
        ("unlink grp via 2nd", lambda: E["grp_b"].data_arrays.__delitem__(da.id)),           # 38
        ("link grp via 2nd", lambda: E["grp_b"].data_arrays.append(da2)),                    # 39
        ("tag.refs del", lambda: tag.references.__delitem__(da.id)),                         # 40
        ("tag.refs append", lambda: tag.references.append(da2)),                             # 41
        ("tag.refs del via 2nd", lambda: E["tag_b"].references.__delitem__(da.id)),          # 42
        ("tag.refs append via 2nd", lambda: E["tag_b"].references.append(da2)),              # 43
        ("da.sources del", lambda: da.sources.__delitem__(E["src"].id)),                     # 44
        ("da.sources append", lambda: da.sources.append(E["child"])),                        # 45
        ("da.sources del via 2nd", lambda: E["da_b"].sources.__delitem__(E["src"].id)),      # 46
        ("da.sources append via 2nd", lambda: E["da_b"].sources.append(E["child"])),         # 47
        # a data frame through its first and its second long-lived handle
        ("fr.append_rows", lambda: E["fr"].append_rows([(3, 2.5, "z")])),                    # 48
        ("fr.append_rows via 2nd", lambda: E["fr_b"].append_rows([(4, 3.5, "w")])),          # 49
        ("fr.write_cell", lambda: E["fr"].write_cell(9, position=[0, 0])),                   # 50
        ("fr.write_column via 2nd", lambda: E["fr_b"].write_column([7.5, 8.5], name="d")),   # 51
        ("fr.append_column", lambda: E["fr"].append_column([True, False], "g")),            # 52
        ("fr.units via 2nd", lambda: setattr(E["fr_b"], "units", ["s", "ms", None])),        # 53
        ("del fr", lambda: blk.data_frames.__delitem__("fr")),                               # 54
    ]


NOPS = 55


def _handles(E):
    H = {}
    for k in ("blk", "da", "da2", "tag", "mt", "grp", "src", "child", "sec", "sub", "prop", "fr"):
        H[E[k].id] = E[k]
    H[(E["da"].id, 0)] = E["sdim"]
    H[(E["da2"].id, 0)] = E["rdim"]
    H[(E["da2"].id, 1)] = E["setdim"]
    return H


def _handles_b(E):
    H = {}
    for k in ("blk", "da", "da2", "tag", "mt", "grp", "sec", "prop", "fr"):
        H[E[k].id] = E[k + "_b"]
    return H


# ---------------------------------------------------------------------------
# session view == fresh view, after two operations     PART = index of the first op
# ---------------------------------------------------------------------------
def _ob_no_hidden_state(o2: int, ro: bool) -> bool:
    """
    pre: 0 <= o2 < 55
    post: __return__
    """
    import nixio
    o1 = PART
    # the fresh view is read-only for even second operations, read-write for odd ones
    assume(ro == (o2 % 2 == 0))
    E = _fixture()
    f = E["file"]
    H = _handles(E)
    HB = _handles_b(E)
    with untraced():
        _state(f, H)                      # every long-lived handle has been read from once
        _state(f, HB)
    ops = _ops(E)
    for sel in (o1, o2):
        label, action = _pick(ops, sel)
        try:
            action()
        except Exception:  # noqa  a refused second step (e.g. the target was deleted by the first)
            pass
    mode = "r" if ro else "a"
    # (everything is concrete from here on - the operations have been chosen: the walks run untraced)
    with untraced():
        session = _g(lambda: _state(f, H))
        session_b = _g(lambda: _state(f, HB))
        fresh = nixio.File(PATH, mode)
        reopened = _g(lambda: _state(fresh))
        if session != reopened or session_b != reopened:
            return False
        f.close()
        again = nixio.File(PATH, "r")
        return _g(lambda: _state(again)) == reopened


# ---------------------------------------------------------------------------
# last write wins: an attribute written twice (through the same or through a second
# long-lived handle) reads - through both handles and from a freshly opened file - as
# the value written last.                                   PART = index into ATTRS
# ---------------------------------------------------------------------------
_STR = ["x", "", None, "\u00fc\u6f22", "a longer text"]
_UNIT = ["mV", None, "ms", "kV"]
_NUM = [1, 0.25, None, 2.5, 0, -3]
_POS = [1, 0.25, 2.5, 2]
_NUML = [[1, 2], [0.5, 1.5], [3], [0.25, 0.5, 0.75]]
_NUML1 = [[1], [0.5], [3], [0.25]]
_NUML1N = [[1], [0.5], None, [0.25]]
_STRL = [["a"], ["\u00fc", ""], ["x", "y", "z"]]
_UNITL = [["mV"], ["ms"], ["s"]]
_INTL = [[7], [1, 2, 3], [5, 6]]
_TXTL = [["v"], ["\u00fc", "w"], ["x", "y", "z"]]

# (label, handle key A, handle key B, attribute, value table)
ATTRS = [
    ("da.label", "da", "da_b", "label", _STR), ("da.unit", "da", "da_b", "unit", _UNIT),
    ("da.definition", "da", "da_b", "definition", _STR), ("blk.definition", "blk", "blk_b", "definition", _STR),
    ("tag.definition", "tag", "tag_b", "definition", _STR), ("sec.repository", "sec", "sec_b", "repository", _STR),
    ("sec.reference", "sec", "sec_b", "reference", _STR), ("prop.unit", "prop", "prop_b", "unit", _UNIT),
    ("prop.definition", "prop", "prop_b", "definition", _STR), ("sdim.label", "sdim", "sdim_b", "label", _STR),
    ("sdim.unit", "sdim", "sdim_b", "unit", _UNIT), ("rdim.label", "rdim", "rdim_b", "label", _STR),
    ("rdim.unit", "rdim", "rdim_b", "unit", _UNIT),
    ("da.expansion_origin", "da", "da_b", "expansion_origin", _NUM), ("sdim.offset", "sdim", "sdim_b", "offset", _NUM),
    ("sdim.sampling_interval", "sdim", "sdim_b", "sampling_interval", _POS),
    ("prop.uncertainty", "prop", "prop_b", "uncertainty", _NUM),
    ("da.polynom_coefficients", "da", "da_b", "polynom_coefficients", _NUML),
    ("tag.position", "tag", "tag_b", "position", _NUML1), ("tag.extent", "tag", "tag_b", "extent", _NUML1N),
    ("rdim.ticks", "rdim", "rdim_b", "ticks", _NUML), ("setdim.labels", "setdim", "setdim_b", "labels", _STRL),
    ("tag.units", "tag", "tag_b", "units", _UNITL), ("prop.values", "prop", "prop_b", "values", _INTL),
    ("sprop.values", "sprop", "sprop_b", "values", _TXTL),
]


def _nv(v):
    import numpy as np
    if v is None or isinstance(v, str):
        return v
    if isinstance(v, (list, tuple, np.ndarray)):
        return [_nv(x) for x in v]
    if hasattr(v, "item"):
        return v.item()
    return v


def _reads_as(got, want):
    got, want = _nv(got), _nv(want)
    if want == "" or want == []:
        return got in ("", None, [], ())
    if want is None:
        return got is None or got == [] or got == ()
    return got == want


def _lww(E, reopen, ai, v1, v2, via2):
    label, ka, kb, attr, table = ATTRS[ai]
    a, b = E[ka], E[kb]
    getattr(a, attr)
    getattr(b, attr)                       # both handles have read the attribute before
    first = _pick(table, v1)
    second = _pick(table, v2)
    try:
        setattr(a, attr, first)
    except Exception:  # noqa  (a refused value is C12's subject)
        assume(False)
    try:
        setattr(b if via2 else a, attr, second)
    except Exception:  # noqa
        assume(False)
    if not _reads_as(getattr(a, attr), second) or not _reads_as(getattr(b, attr), second):
        return False
    fresh = reopen()
    fe = {"da": lambda: fresh.blocks["blk"].data_arrays["da"], "blk": lambda: fresh.blocks["blk"],
          "tag": lambda: fresh.blocks["blk"].tags["tg"], "sec": lambda: fresh.sections["sec"],
          "prop": lambda: fresh.sections["sec"].props["p"], "sprop": lambda: fresh.sections["sec"].props["s"],
          "sdim": lambda: fresh.blocks["blk"].data_arrays["da"].dimensions[0],
          "rdim": lambda: fresh.blocks["blk"].data_arrays["da2"].dimensions[0],
          "setdim": lambda: fresh.blocks["blk"].data_arrays["da2"].dimensions[1]}[ka]()
    return _reads_as(getattr(fe, attr), second)


def _ob_last_write_wins(v1: int, v2: int, via2: bool) -> bool:
    """
    pre: 0 <= v1 < 6 and 0 <= v2 < 6
    post: __return__
    """
    import nixio
    E = _fixture()
    return _lww(E, lambda: nixio.File(PATH, "r"), PART, v1, v2, via2)


def _real_lww(args):
    import os
    import shutil
    import tempfile
    import nixio
    global PATH
    tmp = tempfile.mkdtemp(prefix="vf_c02_")
    fakeh5.uninstall()
    old = PATH
    PATH = os.path.join(tmp, "t.nix")
    try:
        try:
            E = _fixture_c()

            def reopen():
                E["file"].close()
                return nixio.File(PATH, "r")
            ok = _lww(E, reopen, PART, args["v1"], args["v2"], args["via2"])
            return (not ok), {"attribute": ATTRS[PART][0], "holds_on_real_stack": ok}
        except Exception:  # noqa
            import traceback
            return True, {"raised_on_real_stack": traceback.format_exc()[-600:]}
    finally:
        PATH = old
        fakeh5.install()
        shutil.rmtree(tmp, ignore_errors=True)


def validate():
    return {"fakeh5_vs_h5py": fakeh5.validate_against_h5py()}


def _real(fn_name, args):
    """real stack: the session view must equal the view after a REAL close + reopen"""
    import os
    import shutil
    import tempfile
    import nixio
    global PATH
    tmp = tempfile.mkdtemp(prefix="vf_c02_")
    fakeh5.uninstall()
    old = PATH
    PATH = os.path.join(tmp, "t.nix")
    try:
        try:
            E = _fixture_c()
            f = E["file"]
            H = _handles(E)
            HB = _handles_b(E)
            _state(f, H)
            _state(f, HB)
            ops = _ops(E)
            for sel in (PART, args["o2"]):
                try:
                    ops[sel][1]()
                except Exception:  # noqa
                    pass
            session = _g(lambda: _state(f, H))
            session_b = _g(lambda: _state(f, HB))
            f.close()
            again = nixio.File(PATH, "r" if args["ro"] else "a")
            reopened = _g(lambda: _state(again))
            again.close()
            bad = session != reopened or session_b != reopened
            return bad, {"ops": [ops[PART][0], ops[args["o2"]][0]], "session_equals_reopened": not bad}
        except Exception as e:  # noqa
            import traceback
            return True, {"raised_on_real_stack": traceback.format_exc()[-600:]}
    finally:
        PATH = old
        fakeh5.install()
        shutil.rmtree(tmp, ignore_errors=True)


OBLIGATIONS = [
    Ob("no_hidden_state", _ob_no_hidden_state, timeout=1200,
       partition_by_tier={"quick": list(range(NOPS)), "thorough": list(range(NOPS))},
       functions=["nixio.entity.Entity.definition", "nixio.data_array.DataArray.label",
                  "nixio.container.Container.__iter__", "nixio.hdf5.h5group.H5Group.get_attr",
                  "nixio.hdf5.h5group.H5Group.set_attr", "nixio.file.File.close"],
       replay=lambda a: _real("_ob_no_hidden_state", a),
       outside="histories longer than two operations; operations outside the table; data frames; that "
               "libhdf5 persists what it was given (the real-stack replay does a real close + reopen)"),
]

OBLIGATIONS.append(
    Ob("last_write_wins", _ob_last_write_wins, timeout=600, partition=list(range(len(ATTRS))),
       functions=["nixio.hdf5.h5group.H5Group.set_attr", "nixio.hdf5.h5group.H5Group.get_attr",
                  "nixio.hdf5.h5group.H5Group.write_data", "nixio.data_array.DataArray.expansion_origin",
                  "nixio.dimensions.SampledDimension.sampling_interval", "nixio.property.Property.values"],
       replay=_real_lww,
       outside="25 attributes (text, unit, number, number list, text list) of arrays, blocks, tags, sections, "
               "properties and dimension descriptors; two writes from value tables of 3-6 entries (None, empty and "
               "non-ASCII text, int then float); an empty text may read back as None"))

ASSUMPTIONS = ["libhdf5 returns after reopening what was stored before closing (NOT decided)"]
