"""C06 - Index expressions on arrays and views mean what they mean in NumPy.

Real code executed symbolically: nixio.data_view.DataView.{__init__, valid,
data_extent, _read_data, _write_data, _transform_coordinates (incl. the inner
transform_slice), _expand_user_slices}, nixio.data_set.DataSet.{__getitem__,
__setitem__, shape, _write_data}, nixio.data_array.DataArray.get_slice (index mode),
nixio.hdf5.h5dataset.H5DataSet.read_data (error mapping).

The parent array is a recording double: it exposes shape/data_extent and logs the
index tuple that would be handed to h5py.  What h5py does with an already
normalised tuple (non-negative starts/stops, positive steps, in-range ints) is
trusted; it is modelled by Python's own slice semantics (vf.models.slice_indices)
and pinned by the real-stack replay and the concrete cross-check in validate().
"""
from typing import List, Optional, Tuple

from vf.ob import Ob, assume
from vf import models

PROPERTY = "C06"
PART = None


def setup():
    models.install_slice_model()
    models.install_quiet_format()
    from vf import nixfake
    nixfake.install()          # only direct_array_index runs on fakeh5; the other obligations use doubles


# ---------------------------------------------------------------------------
# doubles
# ---------------------------------------------------------------------------
class _DS:
    def __init__(self, owner):
        self.owner = owner

    @property
    def shape(self):
        return self.owner.shape

    def write_data(self, data, slc=None):
        self.owner.log.append(("w", slc))

    def read_data(self, slc=None):
        import numpy as np
        self.owner.log.append(("r", slc))
        return np.zeros(1)


class _H5:
    def __init__(self, owner):
        self.owner = owner

    def get_dataset(self, name):
        return _DS(self.owner)

    def get_data(self, name):
        return []

    def get_attr(self, name):
        return None


class _Parent:
    """Stands for the DataArray underneath a DataView."""

    def __init__(self, shape):
        self.shape = tuple(shape)
        self.data_extent = tuple(shape)
        self.log = []
        self._h5group = _H5(self)

    def _read_data(self, sl=None):
        self.log.append(("r", sl))
        return "DATA"


def _view(shape, windows):
    from nixio.data_view import DataView
    par = _Parent(shape)
    dv = DataView(par, tuple(slice(a, b) for a, b in windows))
    return par, dv


def _in_slice(i, start, stop, step):
    """i in range(start, stop, step) for step >= 1, written as arithmetic."""
    return start <= i < stop and (i - start) % step == 0


# ---------------------------------------------------------------------------
# 1. one slice per dimension, any window, any (start, stop, step>=1 | None)
# ---------------------------------------------------------------------------
def _ob_slice(n: int, w0: int, w1: int, a: Optional[int], b: Optional[int],
              c: Optional[int], i: int) -> bool:
    """
    pre: 0 <= w0 <= w1 <= n
    pre: c is None or c >= 1
    post: __return__
    """
    par, dv = _view((n,), [(w0, w1)])
    if not dv.valid:
        return False
    out = dv[slice(a, b, c)]            # real DataSet.__getitem__ -> DataView._read_data
    if out != "DATA" or len(par.log) != 1:
        return False
    kind, tsl = par.log[0]
    if kind != "r" or not isinstance(tsl, tuple) or len(tsl) != 1:
        return False
    ts = tsl[0]
    if not isinstance(ts, slice):
        return False
    # what h5py/NumPy select on the parent axis of extent n with the transformed slice
    ps, pe, pst = models.slice_indices(ts, n)
    got = _in_slice(i, ps, pe, pst)
    # oracle: NumPy semantics of arr[w0:w1][a:b:c]
    L = w1 - w0
    us, ue, ust = models.slice_indices(slice(a, b, c), L)
    want = (w0 <= i < w1) and _in_slice(i - w0, us, ue, ust)
    # h5py requires normalised slices: no negative members, positive step
    if ts.start < 0 or ts.stop < 0 or ts.step < 1:
        return False
    return got == want


# ---------------------------------------------------------------------------
# 2. one integer per dimension
# ---------------------------------------------------------------------------
def _ob_int(n: int, w0: int, w1: int, k: int) -> bool:
    """
    pre: 0 <= w0 <= w1 <= n
    post: __return__
    """
    from nixio.exceptions import OutOfBounds
    par, dv = _view((n,), [(w0, w1)])
    L = w1 - w0
    try:
        dv[k]
    except OutOfBounds:
        return (not (-L <= k < L)) and par.log == []
    if not (-L <= k < L):
        return False
    if len(par.log) != 1:
        return False
    kind, tsl = par.log[0]
    want = w0 + (k if k >= 0 else k + L)
    return kind == "r" and tsl == (want,)


# ---------------------------------------------------------------------------
# 3. tuples: ints / slices / one Ellipsis at any position / padding / surplus
#    PART = (rank R, tuple length T, gpos)
#    entry kinds are symbolic (0 int, 1 slice, 2 Ellipsis); every slice entry is
#    the full slice except the entry at position gpos (if gpos is not None and its
#    kind is 'slice'), which is a general slice(a, b, c) with symbolic members.
#    General slices in EVERY position at once are not explored (path explosion);
#    the per-dimension obligation 1 covers a general slice for an arbitrary
#    window, this one covers its placement at every tuple position.
# ---------------------------------------------------------------------------
def _expected_tuple(entries, windows):
    """Oracle written from NumPy's indexing rule.  Returns ('err',) or
    ('ok', tuple of per-dimension expectations) where an expectation is
    ('i', parent_index) or ('s', start, stop, step) in parent coordinates."""
    R = len(windows)
    nell = sum(1 for e in entries if e is Ellipsis)
    if nell > 1:
        return ("err",)
    m = len(entries) - nell
    if m > R:
        return ("err",)      # NumPy: too many indices
    if nell == 1:
        pos = [j for j, e in enumerate(entries) if e is Ellipsis][0]
        full = list(entries[:pos]) + [slice(None)] * (R - m) + list(entries[pos + 1:])
    else:
        full = list(entries) + [slice(None)] * (R - m)
    exp = []
    for e, (w0, w1) in zip(full, windows):
        L = w1 - w0
        if isinstance(e, slice):
            us, ue, ust = models.slice_indices(e, L)
            exp.append(("s", w0 + us, w0 + ue, ust))
        else:
            if not (-L <= e < L):
                return ("err",)
            exp.append(("i", w0 + (e if e >= 0 else e + L)))
    return ("ok", tuple(exp))


def _same_selection(ts, exp, n):
    """transformed entry `ts` (as handed to h5py on an axis of extent n) selects
    exactly what the oracle entry `exp` selects."""
    if exp[0] == "i":
        return (not isinstance(ts, slice)) and ts == exp[1] and 0 <= ts < n
    if not isinstance(ts, slice):
        return False
    _, s, e, st = exp
    if ts.start == s and ts.stop == e and ts.step == st:
        return True                      # identical normalised triple (fast path)
    if ts.start < 0 or ts.stop < 0 or ts.step < 1 or ts.stop > n:
        return False
    # otherwise compare the selected index sets
    e_empty = s >= e
    t_empty = ts.start >= ts.stop
    if e_empty or t_empty:
        return e_empty and t_empty
    cnt_e = (e - s + st - 1) // st
    cnt_t = (ts.stop - ts.start + ts.step - 1) // ts.step
    if cnt_e != cnt_t or ts.start != s:
        return False
    return cnt_e == 1 or ts.step == st


def _ob_tuple(p0: int, p1: int, p2: int, p3: int,
              e0: int, e1: int, e2: int, e3: int,
              s0: int, s1: int, s2: int, s3: int,
              k0: int, k1: int, k2: int, k3: int, k4: int,
              v0: int, v1: int, v2: int, v3: int, v4: int,
              a: int, an: bool, b: int, bn: bool, c: int, cn: bool,
              write: bool) -> bool:
    """
    post: __return__
    """
    R, T, gpos = PART
    ps, es, ss = (p0, p1, p2, p3), (e0, e1, e2, e3), (s0, s1, s2, s3)
    ks, vs = (k0, k1, k2, k3, k4), (v0, v1, v2, v3, v4)
    windows = []
    ns = []
    for d in range(R):
        assume(ps[d] >= 0 and es[d] >= 0 and ss[d] >= 0)
        windows.append((ps[d], ps[d] + es[d]))
        ns.append(ps[d] + es[d] + ss[d])
    entries = []
    for j in range(T):
        assume(0 <= ks[j] <= 2)
        if ks[j] == 0:
            entries.append(vs[j])
        elif ks[j] == 1:
            if j == gpos:
                cc = None if cn else c
                assume(cc is None or cc >= 1)
                entries.append(slice(None if an else a, None if bn else b, cc))
            else:
                entries.append(slice(None))
        else:
            entries.append(Ellipsis)
    if gpos is not None:
        assume(ks[gpos] == 1)
    entries = tuple(entries)
    par, dv = _view(tuple(ns), windows)
    if not dv.valid:
        return False
    want = _expected_tuple(entries, windows)
    try:
        if write:
            dv[entries] = "VALUE"
        else:
            dv[entries]
    except IndexError:
        return want[0] == "err" and par.log == []
    if want[0] == "err":
        return False
    if len(par.log) != 1:
        return False
    kind, tsl = par.log[0]
    if kind != ("w" if write else "r"):
        return False
    if not isinstance(tsl, tuple) or len(tsl) != R:
        return False
    for d in range(R):
        if not _same_selection(tsl[d], want[1][d], ns[d]):
            return False
    return True


# ---------------------------------------------------------------------------
# 4. the window itself: DataArray.get_slice (index mode) + DataView.__init__
#    PART = rank
# ---------------------------------------------------------------------------
def _real_da(shape):
    from nixio.data_array import DataArray
    da = DataArray.__new__(DataArray)
    par = _Parent(shape)
    da._h5group = par._h5group
    return par, da


def _ob_window(n0: int, n1: int, n2: int, p0: int, p1: int, p2: int,
               e0: int, e1: int, e2: int, npos: int, next_: int, probe: int) -> bool:
    """
    pre: n0 >= 0 and n1 >= 0 and n2 >= 0
    pre: p0 >= 0 and p1 >= 0 and p2 >= 0 and e0 >= 0 and e1 >= 0 and e2 >= 0
    pre: 0 <= npos <= 4 and 0 <= next_ <= 4
    post: __return__
    """
    import numpy as np
    from nixio.exceptions import IncompatibleDimensions, InvalidSlice
    R = PART
    ns, ps, es = (n0, n1, n2)[:R], (p0, p1, p2), (e0, e1, e2)
    par, da = _real_da(ns)
    positions = [ps[d % 3] for d in range(npos)]
    extents = [es[d % 3] for d in range(next_)]
    try:
        dv = da.get_slice(positions, extents)      # index mode is the default
    except (IncompatibleDimensions, IndexError):
        return npos != R or next_ != R
    beyond = (npos == R and next_ == R) and any(ps[d] + es[d] > ns[d] for d in range(R))
    if npos != R or next_ != R:
        # a window of the wrong rank (also an EMPTY position / extent vector) is refused, or yields a view
        # that is invalid: it reads as empty, refuses writes, and nothing reaches the array
        beyond = True
    if beyond:
        if dv.valid:
            return False
        out = dv[:]
        if not (isinstance(out, np.ndarray) and out.size == 0):
            return False
        try:
            dv[:] = "VALUE"
            return False
        except InvalidSlice:
            pass
        return par.log == []
    if not dv.valid:
        return False
    if tuple(dv.data_extent) != tuple(es[:R]):
        return False
    # whole-view read addresses exactly the window
    dv._read_data()
    if len(par.log) != 1:
        return False
    tsl = par.log[0][1]
    for d in range(R):
        s = tsl[d]
        if not (isinstance(s, slice) and s.start == ps[d] and s.stop == ps[d] + es[d] and s.step == 1):
            return False
    return True


# ---------------------------------------------------------------------------
# 5. write-through: an assignment addresses exactly what the read returns
# ---------------------------------------------------------------------------
def _ob_write_same_as_read(n: int, w0: int, w1: int, kind: int, k: int,
                           a: Optional[int], b: Optional[int], c: Optional[int]) -> bool:
    """
    pre: 0 <= w0 <= w1 <= n
    pre: 0 <= kind <= 3
    pre: c is None or c >= 1
    post: __return__
    """
    if kind == 0:
        expr = k
    elif kind == 1:
        expr = slice(a, b, c)
    elif kind == 2:
        expr = (k,)
    else:
        expr = Ellipsis
    par, dv = _view((n,), [(w0, w1)])
    rexc = wexc = None
    try:
        dv[expr]
    except IndexError as e:
        rexc = e
    par2, dv2 = _view((n,), [(w0, w1)])
    try:
        dv2[expr] = "VALUE"
    except IndexError as e:
        wexc = e
    if (rexc is None) != (wexc is None):
        return False
    if rexc is not None:
        return par.log == [] and par2.log == []
    if len(par.log) != 1 or len(par2.log) != 1:
        return False
    if par.log[0][0] != "r" or par2.log[0][0] != "w":
        return False
    rt, wt = par.log[0][1], par2.log[0][1]
    if rt == wt:
        return True
    if not (isinstance(rt, tuple) and isinstance(wt, tuple) and len(rt) == 1 and len(wt) == 1):
        return False
    # compare the selected element sets of the two (normalised) entries
    return _sel_set_equal(rt[0], wt[0], n)


def _norm(x, n):
    """(start, count, step) of a normalised h5py index on an axis of extent n."""
    if isinstance(x, slice):
        st, sp, step = models.slice_indices(x, n)
        cnt = 0 if sp <= st else (sp - st + step - 1) // step
        return st, cnt, step
    return x, 1, 1


def _sel_set_equal(x, y, n):
    xs, xc, xst = _norm(x, n)
    ys, yc, yst = _norm(y, n)
    if xc != yc:
        return False
    if xc == 0:
        return True
    if xs != ys:
        return False
    return xc == 1 or xst == yst


# ---------------------------------------------------------------------------
# 6. h5py's refusal of an out-of-range integer surfaces as IndexError
# ---------------------------------------------------------------------------
class _FakeDataset:
    def __init__(self, n, how):
        self.n = n
        self.how = how

    def __getitem__(self, idx):
        if isinstance(idx, int) and not (-self.n <= idx < self.n):
            if self.how == 0:
                raise ValueError("Index (%d) out of range" % 0)
            raise TypeError("out of range")
        import numpy as np
        return np.zeros(1)


def _ob_error_mapping(n: int, k: int, how: int) -> bool:
    """
    pre: n >= 0 and 0 <= how <= 1
    post: __return__
    """
    from nixio.hdf5.h5dataset import H5DataSet
    ds = H5DataSet.__new__(H5DataSet)
    ds.dataset = _FakeDataset(n, how)
    try:
        ds.read_data(k)
    except IndexError:
        return not (-n <= k < n)
    return -n <= k < n


# ---------------------------------------------------------------------------
# 7. the shape of what is read: the selection's shape; only a scalar becomes (1,)
# ---------------------------------------------------------------------------
class _DSZ(_DS):
    def read_data(self, slc=None):
        import numpy as np
        self.owner.log.append(("r", slc))
        z = np.zeros(self.owner.shape)
        return z if slc is None else z[slc]


class _H5Z(_H5):
    def get_dataset(self, name):
        return _DSZ(self.owner)


_SHAPES7 = [(1,), (1, 1), (2, 1), (1, 1, 1), (3, 2), (4,)]


def _ob_read_shape(si: int, ei: int, k: int) -> bool:
    """
    pre: 0 <= si < 6 and 0 <= ei < 6
    pre: -1 <= k <= 1
    post: __return__
    """
    import numpy as np
    from nixio.data_array import DataArray
    shape = _SHAPES7[0]
    for j in range(len(_SHAPES7)):
        if si == j:
            shape = _SHAPES7[j]
    da = DataArray.__new__(DataArray)
    par = _Parent(shape)
    par._h5group = _H5Z(par)
    da._h5group = par._h5group
    R = len(shape)
    exprs = [slice(None), Ellipsis, (slice(0, 1),) * R, (0,) * R, (slice(None),) * (R - 1) + (k,),
             (k,) + (slice(0, 1),) * (R - 1)]
    expr = exprs[0]
    for j in range(len(exprs)):
        if ei == j:
            expr = exprs[j]
    ref = np.zeros(shape)
    try:
        want = ref[expr]
    except IndexError:
        want = None
    try:
        got = da[expr]
    except IndexError:
        return want is None
    if want is None:
        return False
    wshape = want.shape if want.shape != () else (1,)
    return tuple(np.asarray(got).shape) == tuple(wshape)



# ---------------------------------------------------------------------------
# 8. index expressions applied DIRECTLY to a DataArray (no view in between): the elements
#    returned are the ones NumPy selects.  Real DataSet.__getitem__ -> H5DataSet.read_data on
#    a fakeh5 dataset holding distinct values.          PART = (shape, tuple length T, gpos)
#    kinds of all entries symbolic (int / slice / Ellipsis); ints symbolic; the slice at
#    position gpos is general: start and stop symbolic (unbounded), step from a table.
# ---------------------------------------------------------------------------
_DSHAPES = [(3, 4), (2, 3, 2)]


def _nested(shape, base=0, mul=1):
    if len(shape) == 1:
        return [float(base + i) for i in range(shape[0])]
    stride = 1
    for x in shape[1:]:
        stride *= x
    return [_nested(shape[1:], base + i * stride) for i in range(shape[0])]


def _gather(x, sels):
    if not sels:
        return x
    s = sels[0]
    if isinstance(s, list):
        return [_gather(x[i], sels[1:]) for i in s]
    return _gather(x[s], sels[1:])


def _direct_case(da, shape, entries):
    """-> True iff da[entries] returns what NumPy's rule selects (or refuses when NumPy refuses)"""
    want = _expected_tuple(entries, [(0, n) for n in shape])
    try:
        got = da[entries if len(entries) != 1 else entries[0]]
    except IndexError:
        return want[0] == "err"
    if want[0] == "err":
        return False
    sels = []
    for d, e in enumerate(want[1]):
        if e[0] == "i":
            sels.append([j for j in range(shape[d]) if j == e[1]][0])
        else:
            sels.append([j for j in range(shape[d]) if _in_slice(j, e[1], e[2], e[3])])
    exp = _gather(_nested(shape), sels)
    if not isinstance(exp, list):
        exp = [exp]                      # nixio hands a single element out as a 1-element array
    g = got.tolist() if hasattr(got, "tolist") else got
    return _plainf(g) == exp


def _plainf(v):
    from vf import fakeh5
    if isinstance(v, fakeh5._FScalar):
        return [float(v.value)]
    if isinstance(v, (list, tuple)):
        return [(_plainf(x) if isinstance(x, (list, tuple)) else float(x)) for x in v]
    return [float(v)]


_STEPS = [None, 1, 2, 3, 5]
_ENDS = [None, 1, -1]


def _ob_direct(k0: int, k1: int, k2: int, v0: int, v1: int, v2: int,
               a: int, an: bool, b: int, bn: bool, ci: int) -> bool:
    """
    pre: 0 <= ci < 5
    post: __return__
    """
    from vf import nixfake
    from vf.ob import untraced
    shape, T, gpos, general = PART
    ks, vs = (k0, k1, k2), (v0, v1, v2)
    c = None
    for j, cc in enumerate(_STEPS):
        if ci == j:
            c = cc
    if not general:
        # placement of a stepped slice at every tuple position: start and stop from a table
        assume(not an and not bn and 0 <= a < 3 and 0 <= b < 3)
        for j, e in enumerate(_ENDS):
            if a == j:
                a_ = e
            if b == j:
                b_ = e
        a, b, an, bn = a_, b_, a_ is None, b_ is None
    entries = []
    for j in range(T):
        assume(0 <= ks[j] <= 2)
        if ks[j] == 0:
            entries.append(vs[j])
        elif ks[j] == 1:
            entries.append(slice(None if an else a, None if bn else b, c) if j == gpos else slice(None))
        else:
            entries.append(Ellipsis)
    if gpos is not None:
        assume(ks[gpos] == 1)
    else:
        assume(ci == 0 and an and bn)
    nixfake.begin()
    with untraced():
        import nixio
        f = nixio.File("/v/c06.nix", "w")
        da = f.create_block("b", "t").create_data_array("a", "t", data=_nested(shape))
    return _direct_case(da, shape, tuple(entries))


def _replay_direct(args):
    import os
    import shutil
    import tempfile
    from vf import nixfake
    shape, T, gpos, general = PART
    ks, vs = (args["k0"], args["k1"], args["k2"]), (args["v0"], args["v1"], args["v2"])
    c = _STEPS[args["ci"]]
    a, b, an, bn = args["a"], args["b"], args["an"], args["bn"]
    if not general:
        a, b = _ENDS[a], _ENDS[b]
        an, bn = a is None, b is None
    entries = []
    for j in range(T):
        if ks[j] == 0:
            entries.append(vs[j])
        elif ks[j] == 1:
            entries.append(slice(None if an else a, None if bn else b, c)
                           if j == gpos else slice(None))
        else:
            entries.append(Ellipsis)
    nixfake.uninstall()
    tmp = tempfile.mkdtemp(prefix="vf_c06d_")
    try:
        import nixio
        f = nixio.File.open(os.path.join(tmp, "t.nix"), nixio.FileMode.Overwrite)
        da = f.create_block("b", "t").create_data_array("a", "t", data=_nested(shape))
        try:
            ok = _direct_case(da, shape, tuple(entries))
            detail = {"expr": repr(tuple(entries)), "shape": list(shape), "holds_on_real_stack": ok}
        except Exception:  # noqa
            import traceback
            ok = False
            detail = {"expr": repr(tuple(entries)), "raised_on_real_stack": traceback.format_exc()[-800:]}
        f.close()
        return (not ok), detail
    finally:
        nixfake.install()
        shutil.rmtree(tmp, ignore_errors=True)


# ---------------------------------------------------------------------------
# real-stack replay: through the public API on a real HDF5 file, against NumPy
# ---------------------------------------------------------------------------
def _real_case(shape, pos, ext, expr, write):
    """Returns (violated, detail).  Compares nixio on a real file with NumPy."""
    import os
    import shutil
    import tempfile
    import numpy as np
    import nixio
    if any(s > 4000 for s in shape) or int(np.prod(shape)) > 200000:
        return None, {"skipped": "shape too large to replay", "shape": list(shape)}
    tmp = tempfile.mkdtemp(prefix="vf_c06_")
    try:
        f = nixio.File.open(os.path.join(tmp, "t.nix"), nixio.FileMode.Overwrite)
        blk = f.create_block("b", "t")
        ref = np.arange(int(np.prod(shape)), dtype=np.int64).reshape(shape)
        da = blk.create_data_array("a", "t", data=ref)
        dv = da.get_slice(list(pos), list(ext))
        win = tuple(slice(p, p + e) for p, e in zip(pos, ext))
        detail = {"shape": list(shape), "pos": list(pos), "ext": list(ext), "expr": repr(expr),
                  "write": write}
        try:
            want = ref[win][expr]
            want_exc = None
        except IndexError as e:
            want, want_exc = None, e
        if not write:
            try:
                got = dv[expr]
                got_exc = None
            except IndexError as e:
                got, got_exc = None, e
            if want_exc is not None or got_exc is not None:
                detail.update(numpy_raises=repr(want_exc), nixio_raises=repr(got_exc))
                bad = (want_exc is None) != (got_exc is None)
                f.close()
                return bad, detail
            want = np.atleast_1d(want)
            got = np.asarray(got)
            bad = got.shape != want.shape or not np.array_equal(got, want)
            detail.update(numpy=want.tolist()[:20], nixio=got.tolist()[:20])
            f.close()
            return bad, detail
        model = ref.copy()
        if want_exc is None:
            sub = model[win]
            sub[expr] = -7
        try:
            dv[expr] = -7
            got_exc = None
        except IndexError as e:
            got_exc = e
        after = da[:]
        after = np.asarray(after).reshape(shape)
        detail.update(numpy_raises=repr(want_exc), nixio_raises=repr(got_exc),
                      changed_numpy=int((model != ref).sum()), changed_nixio=int((after != ref).sum()))
        bad = (want_exc is None) != (got_exc is None) or not np.array_equal(after, model)
        f.close()
        return bad, detail
    finally:
        shutil.rmtree(tmp, ignore_errors=True)


def _replay_slice(args):
    n, w0, w1 = args["n"], args["w0"], args["w1"]
    return _real_case((n,), (w0,), (w1 - w0,), slice(args["a"], args["b"], args["c"]), False)


def _replay_int(args):
    n, w0, w1 = args["n"], args["w0"], args["w1"]
    return _real_case((n,), (w0,), (w1 - w0,), args["k"], False)


def _replay_write(args):
    n, w0, w1 = args["n"], args["w0"], args["w1"]
    kind = args["kind"]
    expr = [args["k"], slice(args["a"], args["b"], args["c"]), (args["k"],), Ellipsis][kind]
    return _real_case((n,), (w0,), (w1 - w0,), expr, True)


def _replay_tuple(args):
    R, T, gpos = PART
    ps = [args["p%d" % d] for d in range(R)]
    es = [args["e%d" % d] for d in range(R)]
    ns = [args["p%d" % d] + args["e%d" % d] + args["s%d" % d] for d in range(R)]
    entries = []
    for j in range(T):
        k = args["k%d" % j]
        if k == 0:
            entries.append(args["v%d" % j])
        elif k == 1:
            if j == gpos:
                entries.append(slice(None if args["an"] else args["a"],
                                     None if args["bn"] else args["b"],
                                     None if args["cn"] else args["c"]))
            else:
                entries.append(slice(None))
        else:
            entries.append(Ellipsis)
    return _real_case(tuple(ns), tuple(ps), tuple(es), tuple(entries), bool(args["write"]))


def _replay_window(args):
    import numpy as np
    import os
    import shutil
    import tempfile
    import nixio
    R = PART
    ns = [args["n%d" % d] for d in range(R)]
    ps = [args["p%d" % (d % 3)] for d in range(args["npos"])]
    es = [args["e%d" % (d % 3)] for d in range(args["next_"])]
    if any(s > 300 for s in ns):
        return None, {"skipped": "shape too large"}
    tmp = tempfile.mkdtemp(prefix="vf_c06_")
    try:
        f = nixio.File.open(os.path.join(tmp, "t.nix"), nixio.FileMode.Overwrite)
        blk = f.create_block("b", "t")
        ref = np.arange(int(np.prod(ns)), dtype=np.int64).reshape(ns)
        da = blk.create_data_array("a", "t", data=ref)
        detail = {"shape": ns, "pos": ps, "ext": es}
        try:
            dv = da.get_slice(ps, es)
        except nixio.exceptions.IncompatibleDimensions:
            f.close()
            return (len(ps) == R and len(es) == R), detail
        if len(ps) != R or len(es) != R:
            f.close()
            return True, detail
        beyond = any(p + e > n for p, e, n in zip(ps, es, ns))
        got = np.asarray(dv[:])
        if beyond:
            bad = dv.valid or got.size != 0
        else:
            want = ref[tuple(slice(p, p + e) for p, e in zip(ps, es))]
            bad = (not dv.valid) or got.shape != want.shape or not np.array_equal(got, want)
        detail.update(valid=bool(dv.valid), got=got.tolist()[:20] if got.size < 500 else "large")
        f.close()
        return bad, detail
    finally:
        shutil.rmtree(tmp, ignore_errors=True)


# ---------------------------------------------------------------------------
# validation of the trusted base for this property
# ---------------------------------------------------------------------------
def validate():
    """(a) slice.indices model == builtin; (b) recording double vs real h5py:
    200 expressions through the real DataArray/DataView on a real file vs NumPy."""
    import random
    out = {"slice_model_cases": models.validate_slice_model()}
    rnd = random.Random(6)
    bad = []
    cnt = 0
    for _ in range(40):
        shape = (rnd.randint(1, 6), rnd.randint(1, 5))
        pos = tuple(rnd.randint(0, s - 1) for s in shape)
        ext = tuple(rnd.randint(0, s - p) for s, p in zip(shape, pos))
        for _ in range(5):
            def rint(L):
                return rnd.choice([None] + list(range(-L - 2, L + 3)))
            ex = []
            for L in ext:
                r = rnd.random()
                if r < 0.3 and L > 0:
                    ex.append(rnd.randint(-L, L - 1))
                elif r < 0.9:
                    ex.append(slice(rint(L), rint(L), rnd.choice([None, 1, 2, 3])))
                else:
                    ex = [Ellipsis]
                    break
            expr = tuple(ex)
            if expr == (0,) or (len(expr) == 1 and expr[0] == 0):
                pass
            v, d = _real_case(shape, pos, ext, expr, False)
            cnt += 1
            if v:
                bad.append(d)
    out["real_stack_expressions"] = cnt
    if bad:
        raise AssertionError("real-stack cross-check disagrees with NumPy on the unchanged "
                             "read path: %r" % bad[:2])
    return out


_DV = "nixio.data_view.DataView."
_TUPLE_FUNCS = [_DV + "__init__", _DV + "_transform_coordinates", _DV + "_expand_user_slices",
                _DV + "_read_data", _DV + "_write_data", "nixio.data_set.DataSet.__getitem__",
                "nixio.data_set.DataSet.__setitem__", "nixio.data_set.DataSet._write_data"]


def _tuple_parts(ranks):
    parts = []
    for R in ranks:
        for T in range(0, R + 2):
            parts.append((R, T, None))
            for g in range(T):
                parts.append((R, T, g))
    return parts


OBLIGATIONS = [
    Ob("slice_per_dimension", _ob_slice, timeout=150,
       functions=[_DV + "__init__", _DV + "_transform_coordinates", _DV + "_expand_user_slices",
                  _DV + "_read_data", "nixio.data_set.DataSet.__getitem__"],
       replay=_replay_slice,
       outside="negative/zero steps (refused by nixio, outside the statement); h5py's own "
               "interpretation of the normalised slice"),
    Ob("int_per_dimension", _ob_int, timeout=60,
       functions=[_DV + "_transform_coordinates", _DV + "_read_data"], replay=_replay_int),
    Ob("tuple_rank12", _ob_tuple, timeout=400, functions=_TUPLE_FUNCS, replay=_replay_tuple,
       partition=_tuple_parts([1, 2]),
       outside="general slices in several tuple positions at once; rank > 2 (thorough tier)"),
    Ob("tuple_rank34", _ob_tuple, timeout=1800, tiers=("thorough",), functions=_TUPLE_FUNCS,
       replay=_replay_tuple,
       partition=_tuple_parts([3]) + [p for p in _tuple_parts([4]) if p[2] is None or p[1] <= 2],
       outside="general slices in several tuple positions at once; rank 4 with a general slice only "
               "for tuples of at most 2 entries (longer rank-4 tuples use ints / full slices / Ellipsis)"),
    Ob("window", _ob_window, timeout=200, functions=["nixio.data_array.DataArray.get_slice",
                                                   _DV + "__init__", _DV + "data_extent",
                                                   _DV + "_read_data", _DV + "_write_data"],
       replay=_replay_window, partition=[1, 2, 3],
       outside="negative positions/extents (not index/extent values)"),
    Ob("write_same_as_read", _ob_write_same_as_read, timeout=200,
       functions=[_DV + "_write_data", _DV + "_read_data", _DV + "_transform_coordinates"],
       replay=_replay_write),
    Ob("read_shape_rule", _ob_read_shape, timeout=120,
       functions=["nixio.data_array.DataArray._read_data", "nixio.data_set.DataSet.__getitem__"]),
    Ob("direct_array_index", _ob_direct, timeout=600,
       partition_by_tier={
           "quick": [((3, 4), 1, 0, True), ((3, 4), 2, 0, False), ((3, 4), 2, 1, False), ((3, 4), 2, None, False),
                     ((3, 4), 3, 2, False), ((3, 4), 3, 1, False), ((2, 3, 2), 2, 1, False),
                     ((2, 3, 2), 3, 2, False)],
           "thorough": [(sh, T, g, False) for sh in _DSHAPES for T in range(1, len(sh) + 2)
                        for g in [None] + list(range(T)) if T <= 3] +
                       [((3, 4), 1, 0, True), ((3, 4), 2, 1, True), ((2, 3, 2), 1, 0, True)]},
       functions=["nixio.data_set.DataSet.__getitem__", "nixio.data_set.DataSet._read_data",
                  "nixio.hdf5.h5dataset.H5DataSet.read_data"],
       replay=_replay_direct,
       outside="two array shapes ((3, 4) and (2, 3, 2)); one stepped slice per expression (step in {None, 1, 2, 3, 5}; "
               "start / stop any integer or None in the 'general' partitions, from {None, 1, -1} in the placement "
               "partitions), the other slices full; reads only (writes: "
               "C01 index_passthrough); fakeh5's selection semantics are pinned to h5py by the differential "
               "script and every counterexample is replayed on a real file"),
    Ob("h5py_refusal_is_indexerror", _ob_error_mapping, timeout=60,
       functions=["nixio.hdf5.h5dataset.H5DataSet.read_data"]),
]
