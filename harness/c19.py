"""C19 - Timestamps: creation time is fixed, update time follows attribute changes.

a. text conversion: str_to_time(time_to_str(t)) == t for all 0 <= t < 4102444800
   (1970-2100) - engine E2: SMT encoding generated from the AST of
   nixio/util/util.py (vf.smt_time), z3 + cvc5.
b. policy: the real entity classes (Entity, Block, Group, DataArray, Tag,
   MultiTag, Source, Section, Feature, File) run on fakeh5 with util.now_int
   scripted to symbolic instants c0 <= c1 and time_to_str/str_to_time replaced by
   the identity (their correctness is part a), auto_update_timestamps symbolic
   (given at open time or toggled later).  For every setter named in the
   statement: created_at of every entity unchanged; auto off -> no timestamp
   changes at all; auto on -> the target's updated_at == c1 and nobody else's
   changes.  force_*_at(t) then read == t for all t.
"""
from vf.ob import Ob, assume
from vf import models, fakeh5, nixfake, smt_time

PROPERTY = "C19"
PART = None
PATH = "/v/ts.nix"
_REAL_BACKEND = [False]


def setup():
    models.install_quiet_format()
    nixfake.install(ident_time=True)


def _pick(tbl, i):
    for k in range(len(tbl)):
        if i == k:
            return tbl[k]
    assume(False)


# ---------------------------------------------------------------------------
# fixture with one entity of every kind
# ---------------------------------------------------------------------------
def _fixture(auto_at_open, path):
    import nixio
    f = nixio.File(path, "w", auto_update_timestamps=auto_at_open)
    E = {"file": f}
    E["block"] = blk = f.create_block("blk", "t")
    E["block2"] = f.create_block("blk2", "t")
    E["data_array"] = da = blk.create_data_array("da", "t", data=[1.0, 2.0])
    E["da2"] = da2 = blk.create_data_array("da2", "t", data=[[0.0], [1.0]])
    E["da3"] = blk.create_data_array("da3", "t", data=[[0.5], [1.5]])
    E["tag"] = tag = blk.create_tag("tg", "t", [0.0])
    tag.references.append(da)
    E["feature"] = tag.create_feature(da2, nixio.LinkType.Untagged)
    E["multi_tag"] = mt = blk.create_multi_tag("mt", "t", positions=da2)
    mt.extents = E["da3"]
    E["group"] = blk.create_group("grp", "t")
    E["source"] = blk.create_source("src", "t")
    E["section"] = sec = f.create_section("sec", "t")
    E["subsection"] = sec.create_section("sub", "t")
    E["data_frame"] = blk.create_data_frame("fr", "t", col_names=["c", "d"], col_dtypes=[int, float],
                                            data=[(1, 0.5), (2, 1.5)])
    E["property"] = sec.create_property("p", [1, 2])
    # dimension descriptors (not entities: they carry no timestamps of their own)
    DIMS.clear()
    DIMS["s"] = da.append_sampled_dimension(0.5, unit="s")
    DIMS["r"] = da2.append_range_dimension([1.0, 2.0])
    DIMS["set"] = da2.append_set_dimension(["a"])
    DIMS["lr"] = E["da3"].append_range_dimension([1.0, 2.0])
    DIMS["lr"].link_data_array(da2, [-1, 0])          # takes ticks, unit and label from da2
    E["da3"].append_set_dimension(["b"])
    return E


DIMS = {}


def _node_of(ent):
    g = ent._h5group
    h = getattr(g, "group", None)
    if h is None:
        h = g.dataset          # Property lives on a dataset
    return h.node if hasattr(h, "node") else h


def _stamps(E):
    """(created_at, updated_at) of every entity in the fixture, read through the API"""
    out = {}
    for k, e in E.items():
        out[k] = (e.created_at, e.updated_at)
    return out


# the setters named in the statement: (target key, label, action)
def _listed_ops():
    import nixio
    return [
        ("block", "type", lambda E: setattr(E["block"], "type", "u")),
        ("block", "definition", lambda E: setattr(E["block"], "definition", "d")),
        ("group", "type", lambda E: setattr(E["group"], "type", "u")),
        ("group", "definition", lambda E: setattr(E["group"], "definition", "d")),
        ("source", "type", lambda E: setattr(E["source"], "type", "u")),
        ("source", "definition", lambda E: setattr(E["source"], "definition", "d")),
        ("data_array", "type", lambda E: setattr(E["data_array"], "type", "u")),
        ("data_array", "definition", lambda E: setattr(E["data_array"], "definition", "d")),
        ("data_array", "label", lambda E: setattr(E["data_array"], "label", "l")),
        ("data_array", "unit", lambda E: setattr(E["data_array"], "unit", "mV")),
        ("data_array", "expansion_origin", lambda E: setattr(E["data_array"], "expansion_origin", 1.5)),
        ("data_array", "polynom_coefficients",
         lambda E: setattr(E["data_array"], "polynom_coefficients", [1.0, 2.0])),
        ("data_array", "clear polynom_coefficients",
         lambda E: setattr(E["data_array"], "polynom_coefficients", None)),
        ("data_array", "append_set_dimension", lambda E: E["data_array"].append_set_dimension(["a"])),
        ("data_array", "append_sampled_dimension",
         lambda E: E["data_array"].append_sampled_dimension(0.5, label="x", unit="s", offset=1.0)),
        ("data_array", "append_range_dimension",
         lambda E: E["data_array"].append_range_dimension([1.0, 2.0])),
        ("tag", "type", lambda E: setattr(E["tag"], "type", "u")),
        ("tag", "definition", lambda E: setattr(E["tag"], "definition", "d")),
        ("tag", "position", lambda E: setattr(E["tag"], "position", [1.0])),
        ("tag", "extent", lambda E: setattr(E["tag"], "extent", [1.0])),
        ("tag", "units", lambda E: setattr(E["tag"], "units", ["ms"])),
        ("tag", "clear extent", lambda E: setattr(E["tag"], "extent", None)),
        ("multi_tag", "type", lambda E: setattr(E["multi_tag"], "type", "u")),
        ("multi_tag", "definition", lambda E: setattr(E["multi_tag"], "definition", "d")),
        ("multi_tag", "positions", lambda E: setattr(E["multi_tag"], "positions", E["da3"])),
        ("multi_tag", "extents", lambda E: setattr(E["multi_tag"], "extents", E["da2"])),
        ("multi_tag", "clear extents", lambda E: setattr(E["multi_tag"], "extents", None)),
        ("multi_tag", "units", lambda E: setattr(E["multi_tag"], "units", ["ms"])),
        ("section", "type", lambda E: setattr(E["section"], "type", "u")),
        ("section", "definition", lambda E: setattr(E["section"], "definition", "d")),
        ("section", "reference", lambda E: setattr(E["section"], "reference", "r")),
        ("section", "repository", lambda E: setattr(E["section"], "repository", "r")),
        ("subsection", "repository", lambda E: setattr(E["subsection"], "repository", "r")),
        ("feature", "link_type", lambda E: setattr(E["feature"], "link_type", nixio.LinkType.Indexed)),
        ("feature", "data", lambda E: setattr(E["feature"], "data", E["da3"])),
        # clearing an attribute is a change of that attribute too
        ("block", "clear definition", lambda E: setattr(E["block"], "definition", None)),
        ("data_array", "clear definition", lambda E: setattr(E["data_array"], "definition", None)),
        ("data_array", "clear label", lambda E: setattr(E["data_array"], "label", None)),
        ("data_array", "clear unit", lambda E: setattr(E["data_array"], "unit", None)),
        ("data_array", "clear unit (empty)", lambda E: setattr(E["data_array"], "unit", "")),
        ("data_array", "clear expansion_origin", lambda E: setattr(E["data_array"], "expansion_origin", None)),
        ("data_array", "clear polynom_coefficients (empty)",
         lambda E: setattr(E["data_array"], "polynom_coefficients", [])),
        ("tag", "clear units", lambda E: setattr(E["tag"], "units", None)),
        ("tag", "clear definition", lambda E: setattr(E["tag"], "definition", None)),
        ("multi_tag", "clear units", lambda E: setattr(E["multi_tag"], "units", [])),
        ("section", "clear reference", lambda E: setattr(E["section"], "reference", None)),
        ("section", "clear repository", lambda E: setattr(E["section"], "repository", None)),
        ("section", "clear definition", lambda E: setattr(E["section"], "definition", None)),
        ("source", "clear definition", lambda E: setattr(E["source"], "definition", None)),
        ("group", "clear definition", lambda E: setattr(E["group"], "definition", None)),
        ("feature", "link_type (str)", lambda E: setattr(E["feature"], "link_type", "Tagged")),
        ("data_frame", "type", lambda E: setattr(E["data_frame"], "type", "u")),
        ("data_frame", "definition", lambda E: setattr(E["data_frame"], "definition", "d")),
        ("data_frame", "units", lambda E: setattr(E["data_frame"], "units", ["mV", None])),
    ]


# other mutating calls: must not touch anybody's created_at, and nothing with auto off
def _other_ops():
    return [
        (None, "property values", lambda E: setattr(E["property"], "values", [5])),
        (None, "property definition", lambda E: setattr(E["property"], "definition", "d")),
        (None, "write data", lambda E: E["data_array"].write_direct([3.0, 4.0])),
        (None, "append data", lambda E: E["data_array"].append([5.0])),
        (None, "tag references", lambda E: E["tag"].references.append(E["da2"])),
        (None, "group member", lambda E: E["group"].data_arrays.append(E["data_array"])),
        (None, "sources", lambda E: E["data_array"].sources.append(E["source"])),
        (None, "metadata", lambda E: setattr(E["data_array"], "metadata", E["section"])),
        # attributes of dimension descriptors, own and linked
        (None, "sampled unit", lambda E: setattr(DIMS["s"], "unit", "ms")),
        (None, "sampled label", lambda E: setattr(DIMS["s"], "label", "t")),
        (None, "sampled offset", lambda E: setattr(DIMS["s"], "offset", 1.0)),
        (None, "sampled interval", lambda E: setattr(DIMS["s"], "sampling_interval", 0.25)),
        (None, "range ticks", lambda E: setattr(DIMS["r"], "ticks", [3.0, 4.0])),
        (None, "range unit", lambda E: setattr(DIMS["r"], "unit", "ms")),
        (None, "range label", lambda E: setattr(DIMS["r"], "label", "t")),
        (None, "set labels", lambda E: setattr(DIMS["set"], "labels", ["z"])),
        (None, "linked range unit", lambda E: setattr(DIMS["lr"], "unit", "ms")),
        (None, "linked range label", lambda E: setattr(DIMS["lr"], "label", "t")),
        (None, "link a dimension", lambda E: DIMS["r"].link_data_array(E["da3"], [-1, 0])),
        (None, "replace a link", lambda E: DIMS["lr"].link_data_array(E["da3"], [-1, 0])),
        (None, "ticks over a link", lambda E: setattr(DIMS["lr"], "ticks", [5.0, 6.0])),
        (None, "delete dimensions", lambda E: E["da2"].delete_dimensions()),
        # table writes of a data frame
        (None, "frame append rows", lambda E: E["data_frame"].append_rows([(3, 2.5)])),
        (None, "frame write cell", lambda E: E["data_frame"].write_cell(9, position=[0, 0])),
        (None, "frame append column", lambda E: E["data_frame"].append_column([1, 2], "e")),
        (None, "frame as link target", lambda E: DIMS["set"].link_data_frame(E["data_frame"], 0)),
    ]


def _policy(opi, auto, toggle, c0, c1, ops, path):
    nixfake.begin([c0])
    E = _fixture(auto != toggle, path)     # toggle: opened with the opposite setting ...
    if toggle:
        E["file"].auto_update_timestamps = auto      # ... and switched before the call
    before = _stamps(E)
    for k in before:
        if before[k] != (c0, c0):
            return False
    target, label, action = _pick(ops, opi)
    nixfake.set_clock([c1])
    action(E)
    after = _stamps(E)
    for k in before:
        if after[k][0] != before[k][0]:
            return False                    # creation time never changes as a side effect
        if c0 <= c1 and after[k][1] < before[k][1]:
            return False                    # update time never moves backwards while the clock does not
        if not auto:
            if after[k][1] != before[k][1]:
                return False                # auto off: nothing changes
        elif target is not None:
            if k == target:
                if after[k][1] != c1:
                    return False            # the entity itself: updated to 'now'
            elif after[k][1] != before[k][1]:
                return False                # nobody else
    return True


def _ob_listed(opi: int, auto: bool, toggle: bool, c0: int, c1: int) -> bool:
    """
    pre: 0 <= c0 and 0 <= c1
    pre: 0 <= opi < 60
    post: __return__
    """
    lo, hi = PART
    ops = _listed_ops()
    assume(lo <= opi < hi and opi < len(ops))
    return _policy(opi, auto, toggle, c0, c1, ops, PATH)


def _ob_other(opi: int, auto: bool, c0: int, c1: int) -> bool:
    """
    pre: 0 <= c0 <= c1
    pre: 0 <= opi < 26
    post: __return__
    """
    return _policy(opi, auto, False, c0, c1, _other_ops(), PATH)


# ---------------------------------------------------------------------------
# the policy survives a REFUSED call: after a creation / assignment that raised, automatic time stamps work
# exactly as before (switch on: the next listed setter stamps its entity with 'now'; off: nothing moves)
# ---------------------------------------------------------------------------
def _refused_calls():
    import nixio
    return [
        lambda E: E["block"].create_data_array("x", "t", data=[1.0], label=5),
        lambda E: E["block"].create_data_array("x", "t", data=[1.0], unit=5),
        lambda E: E["block"].create_data_array("da", "t", data=[1.0]),                      # duplicate name
        lambda E: E["block"].create_tag("x", "t", ["p"]),
        lambda E: E["block"].create_multi_tag("x", "t", positions=5),
        lambda E: E["tag"].create_feature(E["block2"].create_data_array("far", "t", data=[1.0]), nixio.LinkType.Tagged),
        lambda E: E["tag"].create_feature(E["da2"], "no such link type"),
        lambda E: E["section"].create_property("q", [1, "a"]),
        lambda E: setattr(E["tag"], "units", [5]),
        lambda E: E["block"].create_data_frame("x", "t", col_names=["a", "a"], col_dtypes=[int, int]),
        lambda E: setattr(E["data_array"], "label", 5),
        lambda E: E["data_array"].append_set_dimension([1, 2]),
    ]


def _ob_after_refusal(ri: int, opi: int, auto: bool, c0: int, c1: int) -> bool:
    """
    pre: 0 <= c0 and 0 <= c1
    pre: 0 <= ri < 12 and 0 <= opi < 12
    post: __return__
    """
    return _after_refusal(ri, opi, auto, c0, c1, PATH)


def _after_refusal(ri, opi, auto, c0, c1, path):
    nixfake.begin([c0])
    E = _fixture(auto, path)
    call = _pick(_refused_calls(), ri)
    try:
        call(E)
        assume(False)                          # (only refused calls are the subject here)
    except Exception as e:  # noqa
        if type(e).__name__ == "IgnoreAttempt":
            raise
    if E["file"].auto_update_timestamps != auto:
        return False                            # the switch is the user's
    # every fourth listed setter (one per entity kind), then the policy as usual
    ops = _listed_ops()
    target, label, action = _pick([ops[k] for k in (0, 2, 4, 8, 16, 22, 28, 32, 33, 35, 39, 47)], opi)
    E.pop("far", None)
    before = _stamps(E)
    nixfake.set_clock([c1])
    action(E)
    after = _stamps(E)
    for k in before:
        if after[k][0] != before[k][0]:
            return False
        if k == target and auto:
            if after[k][1] != c1:
                return False
        elif after[k][1] != before[k][1]:
            return False
    return True


_FORCE_KINDS = ["file", "block", "group", "data_array", "tag", "multi_tag", "source", "section",
                "subsection", "property", "data_frame"]


def _other_handles(E):
    """a second, independently obtained handle for every entity of the fixture"""
    f = E["file"]
    b = f.blocks["blk"]
    return {"file": f, "block": b, "block2": f.blocks["blk2"], "data_array": b.data_arrays["da"],
            "da2": b.multi_tags["mt"].positions, "da3": b.data_arrays["da3"], "tag": b.tags["tg"],
            "feature": b.tags["tg"].features[0], "multi_tag": b.multi_tags["mt"], "group": b.groups["grp"],
            "source": b.sources["src"], "section": f.sections["sec"],
            "subsection": f.sections["sec"].sections["sub"], "property": f.sections["sec"].props["p"],
            "data_frame": b.data_frames["fr"]}


def _ob_force(t: int, u: int, ki: int, c0: int) -> bool:
    """
    pre: 0 <= ki < 11
    pre: 0 <= c0
    post: __return__
    """
    nixfake.begin([c0])
    E = _fixture(True, PATH)
    kind = _pick(_FORCE_KINDS, ki)
    before = _stamps(E)
    E2 = _other_handles(E)
    if _stamps(E2) != before:                # (also warms any per-handle state)
        return False
    E[kind].force_created_at(t)
    E[kind].force_updated_at(u)
    if _stamps(E2) != _stamps(E):            # every handle of an entity reads the same stamps
        return False
    after = _stamps(E)
    for k in before:
        if k == kind:
            if after[k] != (t, u):
                return False
        elif after[k] != before[k]:
            return False
    return True


# ---------------------------------------------------------------------------
# part a (engine E2)
# ---------------------------------------------------------------------------
def _ob_time_roundtrip(t: int) -> bool:
    """
    pre: 0 <= t < 4102444800
    post: __return__
    """
    from nixio.util import util as UU
    real = nixfake._REAL
    tts = real.get("time_to_str", UU.time_to_str)
    stt = real.get("str_to_time", UU.str_to_time)
    s = tts(t)
    txt = s.decode() if isinstance(s, bytes) else s
    if len(txt) != 15 or txt[8] != "T" or not (txt[:8] + txt[9:]).isdigit():
        return False
    return stt(s) == t


def _custom_time():
    import os
    r = smt_time.decide(os.environ.get("VERIF_REPO", "/repo"))
    r["bounds"] = ["0 <= t < 4102444800 (1970-01-01 .. 2100-01-01)"]
    r["asserts"] = ["str_to_time(time_to_str(t)) == t", "text fields within their ranges",
                    "text shape YYYYMMDDTHHMMSS"]
    if r.get("status") == "violated":
        r["counterexample"] = {"t": r.get("t", 0)}
    return r


# ---------------------------------------------------------------------------
# real-stack replay: the same policy body on a real HDF5 file (real h5py, real
# time_to_str / str_to_time, clock still scripted)
# ---------------------------------------------------------------------------
def _real_policy(fn_args, which):
    import os
    import shutil
    import tempfile
    import nixio.util as U
    import nixio.util.util as UU
    tmp = tempfile.mkdtemp(prefix="vf_c19_")
    fakeh5.uninstall()
    saved = {}
    for m in (U, UU):
        saved[m] = (m.time_to_str, m.str_to_time)
        m.time_to_str = nixfake._REAL["time_to_str"]
        m.str_to_time = nixfake._REAL["str_to_time"]
    try:
        path = os.path.join(tmp, "t.nix")
        a = dict(fn_args)
        a["c0"] = min(max(a["c0"], 0), 4000000000)
        if "c1" in a:
            a["c1"] = min(max(a["c1"], 0), 4000000000)
        try:
            if which == "refusal":
                ok = _after_refusal(a["ri"], a["opi"], a["auto"], a["c0"], a["c1"], path)
            elif which == "listed":
                ok = _policy(a["opi"], a["auto"], a["toggle"], a["c0"], a["c1"], _listed_ops(), path)
            else:
                ok = _policy(a["opi"], a["auto"], False, a["c0"], a["c1"], _other_ops(), path)
        except Exception as e:  # noqa
            return True, {"args": a, "raised_on_real_stack": "%s: %s" % (type(e).__name__, str(e)[:200])}
        return (not ok), {"args": a, "policy_holds_on_real_stack": ok}
    finally:
        for m in (U, UU):
            m.time_to_str, m.str_to_time = saved[m]
        fakeh5.install()
        shutil.rmtree(tmp, ignore_errors=True)


def _replay_listed(args):
    return _real_policy(args, "listed")


def _replay_other(args):
    return _real_policy(args, "other")


def validate():
    import os
    n = smt_time.validate(os.environ.get("VERIF_REPO", "/repo"))
    # every setter named in the statement is in the table (introspection cross-check)
    import nixio
    wanted = {"type", "definition", "label", "unit", "expansion_origin", "polynom_coefficients",
              "position", "extent", "units", "positions", "extents", "reference", "repository",
              "link_type", "data"}
    have = {lbl.replace("clear ", "").split(" (")[0] for _, lbl, _ in _listed_ops()}
    missing = wanted - have
    if missing:
        raise AssertionError("setters of the statement without an obligation: %s" % sorted(missing))
    for cls, names in ((nixio.DataArray, ["label", "unit", "expansion_origin", "polynom_coefficients"]),
                       (nixio.Tag, ["position", "extent", "units"]),
                       (nixio.MultiTag, ["positions", "extents", "units"]),
                       (nixio.Section, ["reference", "repository"]),
                       (nixio.Feature, ["link_type", "data"])):
        for nme in names:
            p = getattr(cls, nme, None)
            if not isinstance(p, property) or p.fset is None:
                raise AssertionError("%s.%s is no longer a settable property" % (cls.__name__, nme))
    return {"smt_encoding_vs_real_functions": n, "fakeh5_vs_h5py": fakeh5.validate_against_h5py()}


_NL = len(_listed_ops()) if False else 35
_E = "nixio.entity.Entity."
OBLIGATIONS = [
    Ob("time_text_roundtrip_smt", _ob_time_roundtrip, timeout=600, custom=_custom_time, twin=False,
       functions=["nixio.util.util.time_to_str", "nixio.util.util.str_to_time"],
       outside="t outside [0, 4102444800); the C datetime library is represented by a fixed "
               "semantic table of strftime/strptime directives + the civil-date algorithm, "
               "validated against the real functions on 3018 instants per run"),
    Ob("listed_setters_policy", _ob_listed, timeout=900,
       partition=[(k, k + 3) for k in range(0, 54, 3)],
       functions=[_E + "force_updated_at", _E + "type", _E + "definition",
                  "nixio.data_array.DataArray.label", "nixio.tag.Tag.position",
                  "nixio.multi_tag.MultiTag.positions", "nixio.section.Section.repository",
                  "nixio.feature.Feature.link_type", "nixio.file.File.auto_update_timestamps"],
       replay=_replay_listed,
       outside="one fixture file with one entity per kind; persistence after reopening (libhdf5)"),
    Ob("policy_after_a_refused_call", _ob_after_refusal, timeout=600,
       functions=[_E + "force_updated_at", "nixio.file.File.auto_update_timestamps",
                  "nixio.block.Block.create_data_array", "nixio.block.Block.create_tag"],
       replay=lambda a: _real_policy(a, "refusal"),
       outside="twelve refused calls x twelve listed setters (one per entity kind); clock values any integers"),
    Ob("other_mutations_policy", _ob_other, timeout=600, functions=[_E + "created_at"],
       replay=_replay_other),
    Ob("force_then_read", _ob_force, timeout=600,
       functions=[_E + "force_created_at", _E + "force_updated_at", "nixio.file.File.force_created_at"],
       outside="composition with the text conversion is part a"),
]

ASSUMPTIONS = ["util.now_int is the only clock read by nixio (stubbed by scripted instants)",
               "time_to_str/str_to_time are replaced by the identity in part b; their round trip is "
               "part a"]
