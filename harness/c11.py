"""C11 - Open modes and format-version gating protect existing files.

Real code executed symbolically: nixio.file.{can_read, can_write, map_file_mode,
File.__init__, File._check_header, File._create_header, File._set_format,
File._set_version, File._set_id, File.version, File.format, File.id} and the
H5Group attribute plumbing, on the fakeh5 object store with a virtual file table.

Symbolic: the stored header version (x, y, z) in Z^3 (unbounded), its length
(2/3/4 entries), the format tag, the id kind, whether the path exists, the mode.
What libhdf5 does with ACC_RDONLY (refusing writes, leaving the bytes alone) is
trusted; nixio's obligation - asserted here - is to pass that flag for every
read-only open, to decide acceptance exactly as stated, and to touch nothing when
it refuses.
"""
from vf.ob import Ob, assume, untraced
from vf import models, fakeh5, nixfake

PROPERTY = "C11"
PART = None
PATH = "/v/existing.nix"
VALID_ID = "11111111-2222-4333-8444-555555555555"


def setup():
    models.install_quiet_format()
    nixfake.install()


def _pick(tbl, i):
    for k in range(len(tbl)):
        if i == k:
            return tbl[k]
    assume(False)


def _lib_version():
    import nixio.file as nf
    return tuple(nf.HDF_FF_VERSION)


# header ids: (kind, is it a valid id?) - the text for each kind comes from _id_text
ID_KINDS = ["valid", "invalid", "missing", "upper", "trailing", "leading", "truncated", "empty"]
ID_OK = ("valid", "upper")


def _id_text(kind):
    """None = no id attribute at all"""
    return {"valid": VALID_ID, "invalid": "not-a-uuid", "missing": None, "upper": VALID_ID.upper(),
            "trailing": VALID_ID + "-old", "leading": "x" + VALID_ID, "truncated": VALID_ID[:-1], "empty": ""}[kind]


def _prepare(version, fmt, idkind, with_content=True, with_groups=True):
    """an existing file with the given header, written straight into the store"""
    st = fakeh5.Store()
    st.order_tracked = True
    root = st.root
    root.attrs["format"] = fmt
    root.attrs["version"] = list(version)
    if _id_text(idkind) is not None:
        root.attrs["id"] = _id_text(idkind)
    root.attrs["created_at"] = b"20200101T000000"
    root.attrs["updated_at"] = b"20200101T000000"
    data = fakeh5.GNode()
    meta = fakeh5.GNode()
    if with_groups:
        root.links["data"] = data
        root.links["metadata"] = meta
    if with_content and with_groups:
        blk = fakeh5.GNode()
        blk.attrs.update({"name": "blk", "type": "t", "entity_id": "99999999-2222-4333-8444-555555555555",
                          "created_at": b"20200101T000000", "updated_at": b"20200101T000000"})
        data.links["blk"] = blk
    fakeh5.FS[PATH] = st
    return st


# ---------------------------------------------------------------------------
# 1. the decision table of File.__init__
#    PART = (mode, exists)
# ---------------------------------------------------------------------------
def _ob_open(vx: int, vy: int, vz: int, vlen: int, fmt: int, idk: int, groups: bool) -> bool:
    """
    pre: 0 <= vlen < 3
    pre: 0 <= fmt < 2
    pre: 0 <= idk < 8
    post: __return__
    """
    import nixio
    from nixio.exceptions import InvalidFile
    mode, exists = PART
    X, Y, Z = _lib_version()
    nixfake.begin()
    n = _pick([3, 2, 4], vlen)
    version = [vx, vy, vz, 7][:n]
    tag = _pick(["nix", "xin"], fmt)
    idkind = _pick(ID_KINDS, idk)
    if exists:
        if mode == "r" and not groups:
            # outside: read-only open of an acceptable file without /data and /metadata
            id_ok0 = idkind in ID_OK
            assume(not (n == 3 and tag == "nix" and vx == X and vy <= Y and
                        (id_ok0 or not (vx, vy, vz) >= (1, 2, 0))))
        # an existing file need not have been written by nixio: it may lack /data and /metadata
        st = _prepare(version, tag, idkind, with_groups=groups)
        before = fakeh5.snapshot(st)
    try:
        f = nixio.File(PATH, mode)
        opened = True
    except (RuntimeError, InvalidFile):
        opened = False

    if not exists and mode == "r":
        # missing path read-only: error, nothing created, backend never asked
        return (not opened) and PATH not in fakeh5.FS and fakeh5.OPEN_LOG == []

    if (not exists) or mode == "w":
        # fresh file with a fresh header and no content
        if not opened:
            return False
        if fakeh5.OPEN_LOG != [("create", PATH, fakeh5.ACC_TRUNC)]:
            return False
        if exists and fakeh5.FS[PATH] is st:
            return False                 # old store must be gone
        if f.format != "nix" or tuple(int(v) for v in f.version) != (X, Y, Z):
            return False
        if not nixio.util.is_uuid(f.id):
            return False
        return len(f.blocks) == 0 and len(f.sections) == 0 and f.mode == "w"

    # existing file, mode 'a' or 'r'
    id_ok = idkind in ID_OK
    if n != 3:
        accept = False
    elif mode == "a":
        accept = tag == "nix" and (vx, vy, vz) == (X, Y, Z) and id_ok
    else:
        needs_id = (vx, vy, vz) >= (1, 2, 0)
        accept = tag == "nix" and vx == X and vy <= Y and (id_ok or not needs_id)
    want_flag = fakeh5.ACC_RDWR if mode == "a" else fakeh5.ACC_RDONLY
    if fakeh5.OPEN_LOG != [("open", PATH, want_flag)]:
        return False
    if fakeh5.FS[PATH] is not st:
        return False
    if fakeh5.snapshot(st) != before:
        return False                     # neither a refused nor an accepted open changes content
    if opened != accept:
        return False
    if not opened and fakeh5.open_handles(PATH):
        # a refused open must not leave the backend file open (HDF5 shares a file between the
        # handles of one process: a leaked read-write handle makes later read-only opens writable)
        return False
    if opened:
        if [b.name for b in f.blocks] != (["blk"] if groups else []):
            return False
        if mode == "r" and not f._h5file.readonly:
            return False
    return True


# ---------------------------------------------------------------------------
# 1b. an existing path that is not an HDF5 file (size symbolic, 0 included)   PART = mode
# ---------------------------------------------------------------------------
def _ob_not_hdf5(size: int) -> bool:
    """
    pre: size >= 0
    post: __return__
    """
    import nixio
    mode = PART
    nixfake.begin()
    blob = fakeh5.NotHDF5(size)
    fakeh5.FS[PATH] = blob
    if mode == "a":
        assume(size > 0)         # whether an EMPTY existing file counts as missing in read-write mode is left open
    try:
        f = nixio.File(PATH, mode)
        opened = True
    except Exception:  # noqa
        opened = False
    if mode == "w":
        return opened and fakeh5.FS[PATH] is not blob and len(f.blocks) == 0 and f.format == "nix"
    # read-only never changes the bytes; read-write creates only what is missing
    if opened:
        return False
    if fakeh5.FS.get(PATH) is not blob:
        return False
    return not any(op == "create" for op, _, _ in fakeh5.OPEN_LOG)


def _replay_not_hdf5(args):
    import os
    import shutil
    import tempfile
    import nixio
    nixfake.uninstall()
    mode = PART
    size = args["size"]
    if size > 1 << 20:
        return None, {"skipped": "file too large for the replay"}
    tmp = tempfile.mkdtemp(prefix="vf_c11_")
    try:
        p = os.path.join(tmp, "x.nix")
        content = (b"not hdf5 " * (size // 9 + 1))[:size]
        with open(p, "wb") as fh:
            fh.write(content)
        try:
            f = nixio.File(p, mode)
            opened = True
            nblocks = len(f.blocks)
            f.close()
        except Exception:  # noqa
            opened = False
        after = open(p, "rb").read()
        if mode == "w":
            return (not opened) or nblocks != 0, {"opened": opened}
        return opened or after != content, {"opened": opened, "bytes_unchanged": after == content}
    finally:
        shutil.rmtree(tmp, ignore_errors=True)


# ---------------------------------------------------------------------------
# 2. can_read / can_write in isolation (unbounded triples, wrong lengths)
# ---------------------------------------------------------------------------
class _V:
    def __init__(self, v):
        self.version = v


def _ob_can(vx: int, vy: int, vz: int, vlen: int) -> bool:
    """
    pre: 0 <= vlen < 3
    post: __return__
    """
    import nixio.file as nf
    X, Y, Z = _lib_version()
    n = _pick([3, 2, 4], vlen)
    v = tuple([vx, vy, vz, 7][:n])
    try:
        r = nf.can_read(_V(v))
        w = nf.can_write(_V(v))
    except RuntimeError:
        return n != 3
    if n != 3:
        return False
    return (r is True) == (vx == X and vy <= Y) and (w is True) == ((vx, vy, vz) == (X, Y, Z)) \
        and isinstance(r, bool) and isinstance(w, bool)


# ---------------------------------------------------------------------------
# 3. mutating calls on a read-only handle fail and leave the store unchanged
# ---------------------------------------------------------------------------
def _fixture():
    with untraced():
        _fixture_concrete()


def _fixture_concrete():
    import nixio
    nixfake.begin()
    f = nixio.File(PATH, "w")
    blk = f.create_block("blk", "t")
    da = blk.create_data_array("da", "t", data=[1.0, 2.0])
    da.append_set_dimension(["a", "b"])
    da.append_sampled_dimension(0.5)
    da.append_range_dimension([1.0, 2.0])
    tag = blk.create_tag("tg", "t", [0.0])
    tag.references.append(da)
    tag.create_feature(da, nixio.LinkType.Untagged)
    mt = blk.create_multi_tag("mt", "t", positions=[[0.0], [1.0]])
    mt.references.append(da)
    grp = blk.create_group("grp", "t")
    grp.data_arrays.append(da)
    src = blk.create_source("src", "t")
    src.create_source("child", "t")
    da.sources.append(src)
    sec = f.create_section("sec", "t")
    sec.create_property("p", [1, 2])
    sub = sec.create_section("sub", "t")      # no properties of its own
    sub.link = sec
    da.metadata = sec
    f.close()


def _ob_readonly_mutations(op: int) -> bool:
    """
    pre: 0 <= op < 14
    post: __return__
    """
    import nixio
    lo = PART
    assume(lo <= op < lo + 2)
    _fixture()
    st = fakeh5.FS[PATH]
    before = fakeh5.snapshot(st)
    del fakeh5.OPEN_LOG[:]
    f = nixio.File(PATH, "r")
    if fakeh5.OPEN_LOG != [("open", PATH, fakeh5.ACC_RDONLY)]:
        return False
    blk = f.blocks[0]
    da = blk.data_arrays[0]
    tag = blk.tags[0]
    sec = f.sections[0]
    # reads still work
    if da.name != "da" or tuple(sec.props[0].values) != (1, 2) or \
            tuple(da.dimensions[0].labels) != ("a", "b"):
        return False
    try:
        if op == 0:
            f.create_block("n", "t")
        elif op == 1:
            f.create_section("n", "t")
        elif op == 2:
            blk.create_data_array("n", "t", data=[1.0])
        elif op == 3:
            da.label = "x"
        elif op == 4:
            da.append_sampled_dimension(1.0)
        elif op == 5:
            del f.blocks[0]
        elif op == 6:
            tag.references.append(da)
        elif op == 7:
            sec.props[0].values = [5]
        elif op == 8:
            sec.create_property("q", [1])
        elif op == 9:
            blk.type = "u"
        elif op == 10:
            da.write_direct([3.0, 4.0])
        elif op == 11:
            f.force_updated_at(5)
        elif op == 12:
            tag.position = [1.0]
        else:
            da.metadata = sec
        raised = False
    except Exception:  # noqa  (any error is acceptable; a silent success is not)
        raised = True
    return raised and fakeh5.snapshot(st) == before


# ---------------------------------------------------------------------------
# 4. reads in a read-only session return what a writable session returns and
#    change nothing.  The read API is discovered by introspection: every
#    property getter and every method callable without arguments whose name does
#    not announce a mutation, on one entity of every kind.   PART = entity kind
# ---------------------------------------------------------------------------
_MUTATORS = ("create_", "append_", "delete_", "force_", "remove_", "copy_", "flush", "close",
             "pprint", "extend", "write_", "link_", "retrieve_")
_KINDS = ["file", "block", "data_array", "set_dim", "sampled_dim", "range_dim", "tag", "feature",
          "multi_tag", "group", "source", "section", "subsection", "property"]


def _entity(f, kind):
    blk = f.blocks[0]
    da = blk.data_arrays["da"]
    return {
        "file": lambda: f, "block": lambda: blk, "data_array": lambda: da,
        "set_dim": lambda: da.dimensions[0], "sampled_dim": lambda: da.dimensions[1],
        "range_dim": lambda: da.dimensions[2], "tag": lambda: blk.tags[0],
        "feature": lambda: blk.tags[0].features[0], "multi_tag": lambda: blk.multi_tags[0],
        "group": lambda: blk.groups[0], "source": lambda: blk.sources[0],
        "section": lambda: f.sections[0], "subsection": lambda: f.sections[0].sections[0],
        "property": lambda: f.sections[0].props[0],
    }[kind]()


def _read_api(obj):
    import inspect
    names = []
    for n in sorted(dir(type(obj))):
        if n.startswith("_") or n.startswith(_MUTATORS):
            continue
        attr = getattr(type(obj), n, None)
        if isinstance(attr, property):
            names.append((n, "prop"))
        elif inspect.isfunction(attr):
            try:
                sig = inspect.signature(attr)
            except (TypeError, ValueError):
                continue
            req = [p for p in list(sig.parameters.values())[1:]
                   if p.default is inspect._empty and p.kind in (p.POSITIONAL_ONLY, p.POSITIONAL_OR_KEYWORD)]
            if not req:
                names.append((n, "call"))
    return names


def _observe(obj, name, how):
    try:
        v = getattr(obj, name)
        if how == "call":
            v = v()
    except Exception as e:  # noqa
        return ("exc", type(e).__name__)
    return ("ok", _show(v, 0))


def _show(v, depth):
    import numpy as np
    if depth > 2:
        return "..."
    if hasattr(v, "id") and hasattr(v, "_h5group"):
        return ("entity", type(v).__name__, v.id)
    if isinstance(v, np.ndarray):
        return ("nd", v.tolist())
    if isinstance(v, (str, bytes, int, float, bool, type(None))):
        return v
    if isinstance(v, dict):
        return sorted((str(k), repr(_show(x, depth + 1))) for k, x in v.items())
    try:
        return [_show(x, depth + 1) for x in v]
    except TypeError:
        return type(v).__name__


def _ob_readonly_reads(sel: int) -> bool:
    """
    pre: 0 <= sel < 80
    post: __return__
    """
    import nixio
    kind = PART
    _fixture()
    st = fakeh5.FS[PATH]
    before = fakeh5.snapshot(st)
    # read-only session first, on the pristine store
    fro = nixio.File(PATH, "r")
    api = _read_api(_entity(fro, kind))
    assume(sel < len(api))
    name, how = _pick(api, sel)
    got = _observe(_entity(fro, kind), name, how)
    if fakeh5.snapshot(st) != before:
        return False
    fro.close()
    frw = nixio.File(PATH, "a")
    want = _observe(_entity(frw, kind), name, how)
    return got == want


def validate():
    return {"fakeh5_vs_h5py_observations": fakeh5.validate_against_h5py()}


def _real_header_case(version, fmt, idkind, mode):
    """real-stack replay: build a real file, rewrite its header, reopen"""
    import os
    import shutil
    import tempfile
    import h5py
    import numpy as np
    import nixio
    tmp = tempfile.mkdtemp(prefix="vf_c11_")
    try:
        p = os.path.join(tmp, "t.nix")
        f = nixio.File(p, "w")
        f.create_block("blk", "t")
        f.close()
        with h5py.File(p, "a") as h:
            h.attrs["format"] = fmt
            h.attrs["version"] = np.array(version, dtype=np.int64)
            if _id_text(idkind) is not None:
                h.attrs["id"] = _id_text(idkind)
            elif "id" in h.attrs:
                del h.attrs["id"]
        raw_before = open(p, "rb").read()
        try:
            g = nixio.File(p, mode)
            names = [b.name for b in g.blocks]
            g.close()
            opened = True
        except (RuntimeError, nixio.exceptions.InvalidFile) as e:
            opened, names = False, repr(e)
        raw_after = open(p, "rb").read()
        return opened, names, raw_before == raw_after
    finally:
        shutil.rmtree(tmp, ignore_errors=True)


def _replay_open(args):
    mode, exists = PART
    X, Y, Z = _lib_version()
    if not exists:
        return None, {"skipped": "missing-file cases have no storage aspect"}
    n = [3, 2, 4][args["vlen"]]
    version = [args["vx"], args["vy"], args["vz"], 7][:n]
    if any(abs(v) > 2 ** 40 for v in version):
        return None, {"skipped": "version too large for int64 replay"}
    tag = ["nix", "xin"][args["fmt"]]
    idkind = ID_KINDS[args["idk"]]
    opened, names, same = _real_header_case(version, tag, idkind, mode)
    id_ok = idkind in ID_OK
    if mode == "w":
        return (not opened) or names != [], {"opened": opened, "blocks": names}
    if n != 3:
        accept = False
    elif mode == "a":
        accept = tag == "nix" and tuple(version) == (X, Y, Z) and id_ok
    else:
        accept = tag == "nix" and version[0] == X and version[1] <= Y and \
            (id_ok or not tuple(version) >= (1, 2, 0))
    bad = opened != accept or (mode == "r" and not same) or (not opened and not same)
    return bad, {"version": version, "format": tag, "id": idkind, "mode": mode, "opened": opened,
                 "expected": accept, "bytes_unchanged": same, "blocks": names}


_F = "nixio.file."
OBLIGATIONS = [
    Ob("open_decision_table", _ob_open, timeout=300,
       partition=[(m, e) for m in ("r", "a", "w") for e in (True, False)],
       functions=[_F + "File.__init__", _F + "File._check_header", _F + "can_read", _F + "can_write",
                  _F + "map_file_mode", _F + "File._create_header"],
       replay=_replay_open,
       outside="libhdf5's enforcement of ACC_RDONLY and byte-level content (trusted; the flag "
               "handed to the backend is asserted)"),
    Ob("existing_file_that_is_not_hdf5", _ob_not_hdf5, timeout=120, partition=["r", "a", "w"],
       functions=[_F + "File.__init__"], replay=_replay_not_hdf5,
       outside="the file is any regular non-HDF5 file of size >= 0 (read-only, overwrite) / > 0 (read-write); "
               "that libhdf5 refuses such a file is the backend's behaviour"),
    Ob("can_read_can_write", _ob_can, timeout=120, functions=[_F + "can_read", _F + "can_write"]),
    Ob("readonly_reads_agree", _ob_readonly_reads, timeout=600, partition=_KINDS,
       functions=[_F + "File.__init__"],
       outside="one fixture file; read API = property getters and argument-less methods found by "
               "introspection on one entity of each kind"),
    Ob("readonly_mutations_fail", _ob_readonly_mutations, timeout=300, partition=list(range(0, 14, 2)),
       functions=[_F + "File.__init__", "nixio.hdf5.h5group.H5Group.set_attr"],
       outside="14 representative mutating calls; that the backend refuses them is the fake's "
               "(and libhdf5's) behaviour - asserted is that nixio does not swallow the refusal"),
]

ASSUMPTIONS = ["libhdf5 honours ACC_RDONLY / ACC_RDWR / ACC_TRUNC as documented",
               "fakeh5 (validated against h5py by a 41-observation differential script each run)"]
