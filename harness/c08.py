"""C08 - Tagged data is exactly the samples whose coordinates lie in the tagged region.

Real code executed symbolically on fakeh5: BaseTag._calc_data_slices,
_scale_position, _slices_in_data, Tag.tagged_data, Tag.feature_data,
MultiTag._calc_data_slices_mtag, MultiTag.tagged_data, MultiTag.feature_data,
the real Sampled/Range/SetDimension.range_indices / index_of underneath, the
real DataView constructor, util.units.scaling for the unit factor.

Coordinates are exact rationals k/16 (lattice of C07), sampling intervals 2^j,
unit factors 1 or 10 (cm -> mm; exact in binary), referenced extents symbolic.
Oracle: per dimension the set R = {i | coordinate_i in [pos*f, (pos+ext)*f]} (end
excluded iff the stop rule is Exclusive and ext > 0; a dimension beyond the
position's length is taken whole); empty R -> invalid empty view; max R beyond
the stored extent -> OutOfBounds (tag) / invalid view (multi-tag); otherwise a
valid view with window exactly [min R, max R].
"""
from vf.ob import Ob, assume, untraced
from vf import models, fakeh5, nixfake
from vf.models import Q

PROPERTY = "C08"
PART = None
PATH = "/v/c08.nix"
LIM = 512
SN = [1, 2, 4, 8, 16, 32, 64]      # interval numerators over 8


def setup():
    import nixio.dimensions as D
    import nixio.tag as T
    import nixio.multi_tag as M
    import nixio.data_array as A
    models.install_quiet_format()
    models.install_slice_model()
    nixfake.install()
    shim = models.NpShim()
    D.np = shim
    T.np = shim


def _pick(tbl, i):
    for k in range(len(tbl)):
        if i == k:
            return tbl[k]
    assume(False)


def _cdiv(a, b):
    return -((-a) // b)


def _fix(lcls, fixed):
    """PART may pin some arguments to concrete values (partitioning)"""
    for name, val in fixed:
        assume(lcls[name] == val)


# unit cases: (tag unit, dimension unit, factor or 'incompatible')
UNIT_CASES = {
    "none": (None, None, 1),
    "same": ("ms", "ms", 1),
    "cm->mm": ("cm", "mm", 10),
    "dimonly": (None, "ms", 1),
    "tagonly": ("ms", None, "incompatible"),
    "mismatch": ("cm", "mV", "incompatible"),
}


def _region_indices(kind, par, a, b, end_open):
    """oracle: (lo, hi) of {i >= 0 | a <= X_i and X_i <= b (or < b)} in 1/16 units,
    or None if empty.  kind/par describe the descriptor."""
    if kind == "sample":
        sn, off = par
        step = 2 * sn
        lo = _cdiv(a - off, step)
        if lo < 0:
            lo = 0
        hi = (_cdiv(b - off, step) - 1) if end_open else ((b - off) // step)
        return (lo, hi) if hi >= lo else None
    if kind == "set":
        L = par
        lo = _cdiv(a, 16)
        if lo < 0:
            lo = 0
        hi = (_cdiv(b, 16) - 1) if end_open else (b // 16)
        if L > 0 and hi > L - 1:
            hi = L - 1
        return (lo, hi) if hi >= lo else None
    ticks = par
    sel = [i for i in range(len(ticks)) if a <= ticks[i] and (ticks[i] < b if end_open else ticks[i] <= b)]
    return (sel[0], sel[-1]) if sel else None


def _mk_dim(da, kind, par, unit):
    if kind == "sample":
        sn, off = par
        da.append_sampled_dimension(Q(sn, 8), unit=unit, offset=Q(off, 16))
    elif kind == "set":
        da.append_set_dimension(["l%d" % i for i in range(par)] if par else None)
    else:
        d = da.append_range_dimension([Q(t, 16) for t in par])
        if unit:
            d.unit = unit


def _dim_par(kind, si, off, L, t0, d1, d2):
    if kind == "sample":
        return (_pick(SN, si), off)
    if kind == "set":
        return L
    ts = [t0]
    for d in (d1, d2)[:L - 1]:
        assume(0 <= d <= 2 * LIM)
        ts.append(ts[-1] + d)
    assume(-LIM <= t0 and ts[-1] <= LIM)
    return ts


# ---------------------------------------------------------------------------
# 1. Tag on a 1-d array     PART = (descriptor kind, unit case, L for range/set)
# ---------------------------------------------------------------------------
def _ob_tag1d(pn: int, en: int, has_ext: bool, excl: bool, n: int,
              si: int, off: int, t0: int, d1: int, d2: int) -> bool:
    """
    pre: -LIM <= pn <= LIM and 0 <= en <= LIM and -LIM <= off <= LIM
    pre: 0 <= si < 7
    pre: 0 <= n <= 12
    post: __return__
    """
    import nixio
    from nixio.exceptions import OutOfBounds, IncompatibleDimensions
    kind, ucase, L, fixed = PART
    _fix(locals(), fixed)
    tunit, dunit, factor = UNIT_CASES[ucase]
    if kind == "set":
        assume(ucase in ("none", "tagonly"))
    if factor == 10:
        assume(-51 <= pn <= 51 and en <= 51)
    par = _dim_par(kind, si, off, L, t0, d1, d2)
    with untraced():
        nixfake.begin()
        f = nixio.File(PATH, "w")
        blk = f.create_block("b", "t")
    ref = blk.create_data_array("ref", "t", dtype=nixio.DataType.Double, shape=(n,))
    _mk_dim(ref, kind, par, dunit)
    tag = blk.create_tag("tg", "t", [Q(pn, 16)])
    if has_ext:
        tag.extent = [Q(en, 16)]
    if tunit:
        tag.units = [tunit]
    tag.references.append(ref)
    rule = nixio.SliceMode.Exclusive if excl else nixio.SliceMode.Inclusive
    try:
        dv = tag.tagged_data(0, stop_rule=rule)
    except IncompatibleDimensions:
        return factor == "incompatible"
    except OutOfBounds:
        if factor == "incompatible":
            return False
        a = pn * factor
        b = (pn + (en if has_ext else 0)) * factor
        r = _region_indices(kind, par, a, b, excl and has_ext and en > 0)
        return r is not None and r[1] >= n
    if factor == "incompatible":
        return False
    a = pn * factor
    b = (pn + (en if has_ext else 0)) * factor
    r = _region_indices(kind, par, a, b, excl and has_ext and en > 0)
    if r is None:
        return (not dv.valid) and len(dv[:]) == 0
    if r[1] >= n:
        return False
    if not dv.valid:
        return False
    s = dv._slices[0]
    return s.start == r[0] and s.stop == r[1] + 1 and s.step == 1 and dv.data_extent == (r[1] - r[0] + 1,)


# ---------------------------------------------------------------------------
# 2. Tag on a 2-d array: descriptor kind pairs, position shorter than the rank
#    PART = (kind0, kind1, number of position entries)
# ---------------------------------------------------------------------------
def _ob_tag2d(p0: int, p1: int, e0: int, e1: int, has_ext: bool, excl: bool, n0: int, n1: int,
              si: int, off: int, L: int, t0: int, d1: int, d2: int) -> bool:
    """
    pre: -LIM <= p0 <= LIM and -LIM <= p1 <= LIM and 0 <= e0 <= LIM and 0 <= e1 <= LIM
    pre: -LIM <= off <= LIM and 0 <= si < 7 and 1 <= L <= 3
    pre: 0 <= n0 <= 12 and 0 <= n1 <= 12
    post: __return__
    """
    import nixio
    from nixio.exceptions import OutOfBounds
    k0, k1, npos, fixed = PART
    _fix(locals(), fixed)
    assume(L == 2)
    pars = [_dim_par(k, si, off, L, t0, d1, d2) for k in (k0, k1)]
    with untraced():
        nixfake.begin()
        f = nixio.File(PATH, "w")
        blk = f.create_block("b", "t")
    ref = blk.create_data_array("ref", "t", dtype=nixio.DataType.Double, shape=(n0, n1))
    _mk_dim(ref, k0, pars[0], None)
    _mk_dim(ref, k1, pars[1], None)
    ps, es, ns = (p0, p1), (e0, e1), (n0, n1)
    tag = blk.create_tag("tg", "t", [Q(ps[d], 16) for d in range(npos)])
    if has_ext:
        tag.extent = [Q(es[d], 16) for d in range(npos)]
    tag.references.append(ref)
    rule = nixio.SliceMode.Exclusive if excl else nixio.SliceMode.Inclusive
    want = []
    for d in range(2):
        if d < npos:
            b = ps[d] + (es[d] if has_ext else 0)
            want.append(_region_indices((k0, k1)[d], pars[d], ps[d], b, excl and has_ext and es[d] > 0))
        else:
            want.append((0, ns[d] - 1))            # taken whole
    try:
        dv = tag.tagged_data(0, stop_rule=rule)
    except OutOfBounds:
        return all(w is not None for w in want) and any(w[1] >= ns[d] for d, w in enumerate(want))
    if any(w is None for w in want):
        return not dv.valid
    if any(w[1] >= ns[d] for d, w in enumerate(want)):
        return False
    if not dv.valid:
        return False
    for d in range(2):
        s = dv._slices[d]
        if d >= npos and ns[d] == 0:
            if not (s.start == 0 and s.stop == 0):
                return False
            continue
        if not (s.start == want[d][0] and s.stop == want[d][1] + 1):
            return False
    return True


# ---------------------------------------------------------------------------
# 3. MultiTag: row selection, 1-d and 2-d positions   PART = (positions rank, kind)
# ---------------------------------------------------------------------------
def _ob_mtag(row: int, pa: int, pb: int, ea: int, eb: int, has_ext: bool, excl: bool, n: int,
             si: int, off: int, t0: int, d1: int, d2: int, intpos: bool = False) -> bool:
    """
    pre: -LIM <= pa <= LIM and -LIM <= pb <= LIM and 0 <= ea <= LIM and 0 <= eb <= LIM
    pre: -LIM <= off <= LIM and 0 <= si < 7
    pre: 0 <= n <= 12 and -1 <= row <= 3
    post: __return__
    """
    import nixio
    from nixio.exceptions import OutOfBounds
    prank, kind, fixed = PART
    _fix(locals(), fixed)
    par = _dim_par(kind, si, off, 3, t0, d1, d2)
    with untraced():
        nixfake.begin()
        f = nixio.File(PATH, "w")
        blk = f.create_block("b", "t")
    ref = blk.create_data_array("ref", "t", dtype=nixio.DataType.Double, shape=(n,))
    _mk_dim(ref, kind, par, None)
    prow = [Q(pa, 16), Q(pb, 16)]
    erow = [Q(ea, 16), Q(eb, 16)]
    ptype = nixio.DataType.Double
    if intpos:
        # positions stored with an INTEGER element type (whole coordinates), extents stay fractional
        assume(-32 <= pa <= 32 and -32 <= pb <= 32)
        prow = [pa, pb]                     # whole coordinates; in lattice units they are 16 * pa, 16 * pb
        ptype = nixio.DataType.Int64
    if prank == 1:
        pos = blk.create_data_array("pos", "t", dtype=ptype, data=prow)
        ext = blk.create_data_array("ext", "t", dtype=nixio.DataType.Double, data=erow) if has_ext else None
    else:
        pos = blk.create_data_array("pos", "t", dtype=ptype, data=[[prow[0]], [prow[1]]])
        ext = blk.create_data_array("ext", "t", dtype=nixio.DataType.Double,
                                    data=[[erow[0]], [erow[1]]]) if has_ext else None
    mt = blk.create_multi_tag("mt", "t", positions=pos, extents=ext)
    mt.references.append(ref)
    rule = nixio.SliceMode.Exclusive if excl else nixio.SliceMode.Inclusive
    assume(row >= 0)
    try:
        dv = mt.tagged_data(row, 0, stop_rule=rule)
    except OutOfBounds:
        return row >= 2
    if row >= 2:
        return False
    p = (pa, pb)[row]
    if intpos:
        p = 16 * p
    e = (ea, eb)[row] if has_ext else 0
    r = _region_indices(kind, par, p, p + e, excl and has_ext and e > 0)
    if r is None or r[1] >= n:
        return not dv.valid
    if not dv.valid:
        return False
    s = dv._slices[0]
    return s.start == r[0] and s.stop == r[1] + 1


# ---------------------------------------------------------------------------
# 4. feature data follows the link type      PART = (tag | mtag, link type)
# ---------------------------------------------------------------------------
def _ob_feature(row: int, pa: int, pb: int, en: int, excl: bool, nf: int, si: int, off: int) -> bool:
    """
    pre: -LIM <= pa <= LIM and -LIM <= pb <= LIM and 0 <= en <= LIM and -LIM <= off <= LIM
    pre: 0 <= si < 7 and 0 <= nf <= 12 and 0 <= row <= 3
    post: __return__
    """
    import nixio
    from nixio.exceptions import OutOfBounds
    which, ltype, fixed = PART
    _fix(locals(), fixed)
    sn = _pick(SN, si)
    with untraced():
        nixfake.begin()
        f = nixio.File(PATH, "w")
        blk = f.create_block("b", "t")
    ref = blk.create_data_array("ref", "t", dtype=nixio.DataType.Double, shape=(5,))
    ref.append_sampled_dimension(Q(8, 8))
    feat = blk.create_data_array("feat", "t", dtype=nixio.DataType.Double, shape=(nf,))
    feat.append_sampled_dimension(Q(sn, 8), offset=Q(off, 16))
    lt = {"tagged": nixio.LinkType.Tagged, "indexed": nixio.LinkType.Indexed,
          "untagged": nixio.LinkType.Untagged}[ltype]
    rule = nixio.SliceMode.Exclusive if excl else nixio.SliceMode.Inclusive
    if which == "tag":
        tag = blk.create_tag("tg", "t", [Q(pa, 16)])
        tag.extent = [Q(en, 16)]
        tag.references.append(ref)
        tag.create_feature(feat, lt)
        call = lambda: tag.feature_data(0, stop_rule=rule)   # noqa
        p, nrows = pa, None
    else:
        pos = blk.create_data_array("pos", "t", dtype=nixio.DataType.Double, data=[[Q(pa, 16)], [Q(pb, 16)]])
        ext = blk.create_data_array("ext", "t", dtype=nixio.DataType.Double, data=[[Q(en, 16)], [Q(en, 16)]])
        mt = blk.create_multi_tag("mt", "t", positions=pos, extents=ext)
        mt.references.append(ref)
        mt.create_feature(feat, lt)
        call = lambda: mt.feature_data(row, 0, stop_rule=rule)   # noqa
        p, nrows = (pa, pb)[row] if row < 2 else 0, 2
    try:
        dv = call()
    except OutOfBounds:
        if ltype == "untagged":
            return False
        if ltype == "indexed":
            return which == "mtag" and row >= nf
        if nrows is not None and row >= nrows:
            return True
        r = _region_indices("sample", (sn, off), p, p + en, excl and en > 0)
        return r is None or r[1] >= nf
    if ltype == "untagged" or (ltype == "indexed" and which == "tag"):
        s = dv._slices[0]
        return dv.valid and s.start == 0 and s.stop == nf
    if ltype == "indexed":
        if row >= nf:
            return False
        s = dv._slices[0]
        return dv.valid and s.start == row and s.stop == row + 1
    if nrows is not None and row >= nrows:
        return False
    r = _region_indices("sample", (sn, off), p, p + en, excl and en > 0)
    if r is None or r[1] >= nf:
        return False
    s = dv._slices[0]
    return dv.valid and s.start == r[0] and s.stop == r[1] + 1


# ---------------------------------------------------------------------------
# 4b. histories and unit placement: (a) the SAME tag object retrieves, the
#     dimension's unit changes, it retrieves again; (b) rank 2 with a scaled first
#     dimension (cm -> mm) followed by a set dimension whose tag unit is "none"
# ---------------------------------------------------------------------------
def _ob_unit_history(pn: int, en: int, excl: bool, n: int, off: int, second: int) -> bool:
    """
    pre: -51 <= pn <= 51 and 0 <= en <= 51 and -LIM <= off <= LIM
    pre: 0 <= n <= 12 and 0 <= second < 3
    post: __return__
    """
    import nixio
    from nixio.exceptions import OutOfBounds, IncompatibleDimensions
    assume(second == PART and en == 0)               # exact positions (keeps the two retrievals cheap)
    with untraced():
        nixfake.begin()
        f = nixio.File(PATH, "w")
        blk = f.create_block("b", "t")
    ref = blk.create_data_array("ref", "t", dtype=nixio.DataType.Double, shape=(n,))
    par = (8, off)                                   # interval 1
    _mk_dim(ref, "sample", par, "mm")
    tag = blk.create_tag("tg", "t", [Q(pn, 16)])
    tag.extent = [Q(en, 16)]
    tag.units = ["cm"]
    tag.references.append(ref)
    rule = nixio.SliceMode.Exclusive if excl else nixio.SliceMode.Inclusive

    def expect(factor):
        if factor is None:
            return "incompatible"
        r = _region_indices("sample", par, pn * factor, (pn + en) * factor, excl and en > 0)
        if r is None:
            return "invalid"
        if r[1] >= n:
            return "oob"
        return (r[0], r[1] + 1)

    def observe():
        try:
            dv = tag.tagged_data(0, stop_rule=rule)
        except IncompatibleDimensions:
            return "incompatible"
        except OutOfBounds:
            return "oob"
        if not dv.valid:
            return "invalid"
        return (dv._slices[0].start, dv._slices[0].stop)
    if observe() != expect(10):
        return False
    # the dimension's unit changes between the two retrievals (same tag object)
    new_unit, factor = _pick([("cm", 1), ("mm", 10), ("mV", None)], second)
    ref.dimensions[0].unit = new_unit
    return observe() == expect(factor)


def _ob_units_rank2(p0: int, p1: int, e0: int, e1: int, excl: bool, n0: int, n1: int, off: int,
                    u1: int) -> bool:
    """
    pre: -51 <= p0 <= 51 and 0 <= e0 <= 51 and -64 <= p1 <= 64 and 0 <= e1 <= 64
    pre: -LIM <= off <= LIM and 0 <= n0 <= 12 and 0 <= n1 <= 6 and 0 <= u1 < 2
    post: __return__
    """
    import nixio
    from nixio.exceptions import OutOfBounds
    assume(e0 == 0 and (excl, e1 == 0) == PART)      # exact position in the scaled dimension
    with untraced():
        nixfake.begin()
        f = nixio.File(PATH, "w")
        blk = f.create_block("b", "t")
    ref = blk.create_data_array("ref", "t", dtype=nixio.DataType.Double, shape=(n0, n1))
    par0 = (8, off)
    _mk_dim(ref, "sample", par0, "mm")
    _mk_dim(ref, "set", 0, None)
    tag = blk.create_tag("tg", "t", [Q(p0, 16), Q(p1, 16)])
    tag.extent = [Q(e0, 16), Q(e1, 16)]
    tag.units = ["cm", _pick(["none", "none"], u1)]
    tag.references.append(ref)
    rule = nixio.SliceMode.Exclusive if excl else nixio.SliceMode.Inclusive
    want = [_region_indices("sample", par0, p0 * 10, (p0 + e0) * 10, excl and e0 > 0),
            _region_indices("set", 0, p1, p1 + e1, excl and e1 > 0)]      # second dimension: factor 1
    ns = (n0, n1)
    try:
        dv = tag.tagged_data(0, stop_rule=rule)
    except OutOfBounds:
        return all(w is not None for w in want) and any(w[1] >= ns[d] for d, w in enumerate(want))
    if any(w is None for w in want):
        return not dv.valid
    if any(w[1] >= ns[d] for d, w in enumerate(want)):
        return False
    if not dv.valid:
        return False
    return all(dv._slices[d].start == want[d][0] and dv._slices[d].stop == want[d][1] + 1 for d in range(2))


# ---------------------------------------------------------------------------
# 5. IEEE-754: a tag placed exactly on sample i of a dimension with a non-dyadic
#    sampling interval selects exactly sample i (engine E3, vf.smt_fp): the
#    region [p, p] is resolved by index_of(p, GreaterOrEqual) and
#    index_of(p, LessOrEqual), both must be i.       PART = (interval, offset, N)
# ---------------------------------------------------------------------------
def _ob_tag_on_sample_float(i: int) -> bool:
    """
    pre: 0 <= i
    post: __return__
    """
    import nixio
    si, off, N = PART
    assume(i <= N)
    with untraced():
        nixfake.begin()
        f = nixio.File(PATH, "w")
        blk = f.create_block("b", "t")
    ref = blk.create_data_array("ref", "t", dtype=nixio.DataType.Double, shape=(N + 1,))
    dim = ref.append_sampled_dimension(si, offset=off if off else None)
    tag = blk.create_tag("tg", "t", [dim.position_at(i)])
    tag.references.append(ref)
    dv = tag.tagged_data(0)
    return dv.valid and dv._slices[0].start == i and dv._slices[0].stop == i + 1


def _custom_tag_on_sample():
    import os
    from vf import smt_fp
    si, off, N = PART
    repo = os.environ.get("VERIF_REPO", "/repo")
    out = {"queries": 0, "solver_time_s": 0.0, "status": "holds",
           "bounds": ["0 <= i <= %d" % N, "sampling_interval == %r, offset == %r (IEEE doubles)" % (si, off)],
           "asserts": ["index_of(position_at(i), GreaterOrEqual) == i == index_of(position_at(i), LessOrEqual) "
                       "in IEEE-754 binary64, i.e. the tag selects exactly sample i"]}
    for mode in ("GreaterOrEqual", "LessOrEqual"):
        r = smt_fp.decide(repo, si, off, mode, N)
        out["queries"] += r.get("queries", 0)
        out["solver_time_s"] += r.get("solver_time_s", 0.0)
        out[mode] = r.get("z3") or r.get("reason")
        if r.get("status") == "violated":
            out["status"] = "violated"
            out["counterexample"] = {"i": r["i"]}
            return out
        if r.get("status") != "holds":
            out["status"] = "inconclusive"
            out["reason"] = r.get("reason")
            return out
    return out


def _replay_tag_on_sample(args):
    """real stack, real floats: build the tag on a real file"""
    import os
    import shutil
    import tempfile
    global PATH
    tmp = tempfile.mkdtemp(prefix="vf_c08_")
    fakeh5.uninstall()
    import numpy
    import nixio.dimensions as D
    import nixio.tag as T
    shims = (D.np, T.np)
    D.np = numpy
    T.np = numpy
    old = PATH
    PATH = os.path.join(tmp, "t.nix")
    try:
        try:
            ok = _ob_tag_on_sample_float(**args)
        except Exception as e:  # noqa
            import traceback
            return True, {"raised_on_real_stack": traceback.format_exc()[-500:]}
        return (not ok), {"holds_on_real_stack": ok, "PART": list(PART)}
    finally:
        PATH = old
        D.np, T.np = shims
        fakeh5.install()
        shutil.rmtree(tmp, ignore_errors=True)


def validate():
    out = {"slice_model": models.validate_slice_model(), "q_npshim": models.validate_npshim_and_q(),
           "fakeh5_vs_h5py": fakeh5.validate_against_h5py()}
    from nixio.util import units
    assert units.scaling("cm", "mm") == 10.0 and units.scaling("ms", "ms") == 1.0
    import os
    from vf import smt_fp
    out["fp_encoding_vs_real_index_of"] = smt_fp.validate(os.environ.get("VERIF_REPO", "/repo"),
                                                          [(0.1, 0.0), (0.3, 0.7)])
    return out


# ---------------------------------------------------------------------------
# real-stack replay with real floats
# ---------------------------------------------------------------------------
def _real(fn_name, args):
    """re-run the obligation on real h5py / NumPy with Q replaced by float"""
    import os
    import shutil
    import tempfile
    import numpy
    import nixio.dimensions as D
    import nixio.tag as T
    global PATH, Q
    tmp = tempfile.mkdtemp(prefix="vf_c08_")
    fakeh5.uninstall()
    shims = (D.np, T.np)
    D.np = numpy
    T.np = numpy
    oldQ, oldpath = Q, PATH
    Q = lambda n, d=1: n / d        # noqa
    PATH = os.path.join(tmp, "t.nix")
    try:
        try:
            ok = globals()[fn_name](**args)
        except Exception as e:  # noqa
            import traceback
            return True, {"raised_on_real_stack": traceback.format_exc()[-600:]}
        return (not ok), {"holds_on_real_stack": ok}
    finally:
        Q, PATH = oldQ, oldpath
        D.np, T.np = shims
        fakeh5.install()
        shutil.rmtree(tmp, ignore_errors=True)


_T = "nixio.tag."
_M = "nixio.multi_tag.MultiTag."
def _fx(**kw):
    return tuple(sorted(kw.items()))


_EXT = [dict(has_ext=h, excl=x) for h in (False, True) for x in (False, True)]
_OTHER1 = [("sample", "tagonly", 0, _fx(si=3)), ("sample", "mismatch", 0, _fx(si=3)),
           ("range", "none", 3, ()), ("range", "cm->mm", 1, ()), ("set", "none", 3, ()), ("set", "none", 0, ()),
           ("set", "tagonly", 3, ()), ("range", "mismatch", 2, ())]
_KINDS1_QUICK = [("sample", u, 0, _fx(si=3, **e)) for u in ("none", "cm->mm") for e in _EXT] + _OTHER1
_KINDS1_THOROUGH = [("sample", u, 0, _fx(si=k, **e)) for u in ("none", "same", "cm->mm", "dimonly")
                    for k in range(7) for e in _EXT] + _OTHER1 + [("range", "none", 1, ()), ("range", "cm->mm", 3, ())]
_T2_QUICK = [("set", "sample", 1, _fx(si=3, has_ext=True))]
_T2_THOROUGH = [("set", "sample", 1, _fx(si=3, has_ext=h)) for h in (False, True)] + \
               [("sample", "set", 1, _fx(si=k, **e)) for k in (0, 3, 6) for e in _EXT] + \
               [(a, b, 2, _fx(si=3, p1=p, e1=16, **e)) for a in ("set", "range") for b in ("set", "range")
                for p in (0, 24) for e in _EXT]
_MT_INT = [(1, "sample", _fx(si=3, row=0, intpos=True, has_ext=True)),
           (2, "sample", _fx(si=2, row=1, intpos=True, has_ext=True)),
           (1, "range", _fx(si=3, row=0, intpos=True))]
# (the integer-position partitions _MT_INT do not come back within the budget - 'unknown' after 900 s - and
#  are therefore NOT part of any tier: positions stored with an integer element type are outside the claim)
_MT_QUICK = [(r, "range", _fx(si=3, row=w, intpos=False)) for r in (1, 2) for w in (0, 1, 2)]
_MT_THOROUGH = _MT_QUICK + [(r, "sample", _fx(si=k, row=w, intpos=False, **e)) for r in (1, 2) for k in (0, 3, 6)
                            for w in (0, 1, 2) for e in _EXT]
_F_QUICK = [("tag", "tagged", _fx(si=3, excl=x)) for x in (False, True)] + \
           [(w, t, _fx(si=3)) for w in ("tag", "mtag") for t in ("indexed", "untagged")]
_F_THOROUGH = _F_QUICK + [("mtag", "tagged", _fx(si=3, excl=x, row=w)) for x in (False, True) for w in (0, 1, 2)] + \
              [("tag", "tagged", _fx(si=k, excl=x)) for k in (0, 6) for x in (False, True)]

OBLIGATIONS = [
    Ob("tag_1d", _ob_tag1d, timeout=900,
       partition_by_tier={"quick": _KINDS1_QUICK, "thorough": _KINDS1_THOROUGH},
       functions=[_T + "Tag.tagged_data", _T + "BaseTag._calc_data_slices", _T + "BaseTag._scale_position",
                  _T + "BaseTag._slices_in_data", "nixio.data_view.DataView.__init__",
                  "nixio.dimensions.SampledDimension.range_indices"],
       replay=lambda a: _real("_ob_tag1d", a),
       outside="unit factors other than 1 and 10 (down-scaling factors are not exact in binary); "
               "coordinates off the k/16 lattice; extents of the referenced array above 12"),
    Ob("tag_2d", _ob_tag2d, timeout=1500,
       partition_by_tier={"quick": _T2_QUICK, "thorough": _T2_THOROUGH},
       functions=[_T + "Tag.tagged_data", _T + "BaseTag._calc_data_slices"],
       replay=lambda a: _real("_ob_tag2d", a),
       outside="rank 3; units in rank 2 (covered in rank 1); a sampled descriptor is positioned only "
               "in the first slot of a rank-2 tag (path explosion), its range maths is covered in rank 1"),
    Ob("multi_tag_rows", _ob_mtag, timeout=900,
       partition_by_tier={"quick": _MT_QUICK, "thorough": _MT_THOROUGH},
       functions=[_M + "tagged_data", _M + "_calc_data_slices_mtag", _T + "BaseTag._calc_data_slices"],
       replay=lambda a: _real("_ob_mtag", a),
       outside="positions / extents arrays of an INTEGER element type (the partitions exist but the solver does "
               "not finish them within the budget; seed C08-r4s1 lives there and is NOT caught)"),
    Ob("unit_change_between_retrievals", _ob_unit_history, timeout=900,
       partition=[0, 1, 2], functions=[_T + "Tag.tagged_data", _T + "BaseTag._scale_position"],
       replay=lambda a: _real("_ob_unit_history", a),
       outside="one tag object, two retrievals"),
    Ob("units_in_rank2", _ob_units_rank2, timeout=1500,
       partition=[(x, z) for x in (False, True) for z in (False, True)],
       functions=[_T + "BaseTag._calc_data_slices", _T + "BaseTag._scale_position"],
       replay=lambda a: _real("_ob_units_rank2", a),
       outside="first dimension sampled (interval 1, cm -> mm), second a set dimension with tag unit 'none'"),
    Ob("tag_on_sample_ieee754", _ob_tag_on_sample_float, timeout=1200, custom=_custom_tag_on_sample, twin=False,
       partition_by_tier={"quick": [(0.1, 0.0, 4096), (0.001, 0.0, 4096), (0.3, 0.7, 4096)],
                          "thorough": [(si, off, 4096) for si, off in ((0.1, 0.0), (0.001, 0.0), (0.3, 0.7),
                                                                      (0.1, -1.3), (2.5e-05, 0.0),
                                                                      (1.0 / 3.0, 0.25))]},
       functions=["nixio.dimensions.SampledDimension.position_at", "nixio.dimensions.SampledDimension.index_of"],
       replay=_replay_tag_on_sample,
       outside="other interval/offset doubles; positions that are not exactly on a sample; extents"),
    Ob("feature_data", _ob_feature, timeout=900,
       partition_by_tier={"quick": _F_QUICK, "thorough": _F_THOROUGH},
       functions=[_T + "Tag.feature_data", _M + "feature_data"],
       replay=lambda a: _real("_ob_feature", a)),
]

ASSUMPTIONS = ["floats are modelled by exact rationals on the dyadic lattice (DESIGN.md lattice lemma); "
               "every counterexample is replayed with real floats on a real HDF5 file",
               "unit factor comes from the real units.scaling (its correctness for all pairs is C09)"]
