"""C20 - Copies are complete, independent, and keep their internal links.

PARTIAL claim.  Real code executed symbolically on fakeh5: File.create_block(copy_from),
Block.create_data_array / create_tag / create_multi_tag (copy_from) and Block._copy_objects,
File.copy_section, Section.copy_section, Section.create_property(copy_from), H5Group.copy
(name attribute, id policy, visititems/change_id), and the read paths that produce the
content pictures.

Decided here (nixio's Python side): which source path and destination group are handed to
the backend copy, the name the copy gets, the refusal of an existing name before anything
is written, the id policy (kept everywhere / fresh, unique and disjoint everywhere), that
the RETURNED object is the copy, recursive vs. non-recursive section copies, and - on the
object-store model - completeness, internal links and independence of the result.
NOT decided: that libhdf5's H5Ocopy duplicates bytes faithfully; fakeh5.copy is a deep copy
whose sharing rules (links inside the hierarchy stay shared inside the copy, cycles, links
leaving the hierarchy are duplicated, shallow = immediate members) are pinned to h5py by
the differential script; counterexamples are replayed on real HDF5 files.
"""
from vf.ob import Ob, assume, untraced
from vf import models, fakeh5, nixfake

PROPERTY = "C20"
PART = None
SRC = "/v/c20-src.nix"
DST = "/v/c20-dst.nix"


def setup():
    models.install_quiet_format()
    nixfake.install()


def _pick(tbl, i):
    for k in range(len(tbl)):
        if i == k:
            return tbl[k]
    assume(False)


def _plain(v):
    import numpy as np
    if isinstance(v, fakeh5._FScalar):
        v = v.value
    if isinstance(v, np.generic):
        v = v.item()
    if isinstance(v, bytes):
        v = v.decode("utf-8")
    if isinstance(v, (tuple, list)) or (hasattr(v, "tolist") and not isinstance(v, (str, bytes))):
        return tuple(_plain(x) for x in (v.tolist() if hasattr(v, "tolist") else v))
    return v


# ---------------------------------------------------------------------------
# fixture
# ---------------------------------------------------------------------------
def _build(src_path, dst_path):
    """two files: the source with one entity of every copyable kind, wired together; the
    destination with parents to copy into (some names taken)"""
    import nixio
    f = nixio.File(src_path, "w")
    s = f.create_section("s", "ts")
    s.definition = "def s"
    p = s.create_property("p", [1, 2])
    p.unit = "mV"
    p.definition = "def p"
    s.create_property("q", ["x", "y", "z"])
    sub = s.create_section("sub", "tsub")
    sub.create_property("r", [0.5])
    sub.create_section("deep", "td").create_property("d", [True])
    t = f.create_section("t", "tt")
    b = f.create_block("b", "tb")
    b.definition = "def b"
    a1 = b.create_data_array("a1", "ta", data=[1.0, 2.0, 3.0])
    a1.unit = "mV"
    a1.label = "lab"
    a1.definition = "def a1"
    a1.append_range_dimension(ticks=[0.1, 0.2, 0.4]).unit = "s"
    a2 = b.create_data_array("a2", "ta", data=[[1.0, 2.0], [3.0, 4.0]])
    a2.append_sampled_dimension(0.5, unit="ms", offset=1.0, label="time")
    a2.append_set_dimension(["l", "r"])
    a2.polynom_coefficients = [1.0, 2.0]
    src = b.create_source("src", "tsrc")
    src1 = src.create_source("src1", "tsrc")
    a1.sources.append(src1)
    a1.metadata = sub
    tg = b.create_tag("tg", "tt", [0.1])
    tg.extent = [0.2]
    tg.units = ["s"]
    tg.references.append(a1)
    tg.references.append(a2)
    tg.create_feature(a2, nixio.LinkType.Untagged)
    tg.metadata = t
    mt = b.create_multi_tag("mt", "tm", positions=a1)
    mt.extents = a1
    mt.references.append(a2)
    grp = b.create_group("grp", "tg")
    grp.data_arrays.append(a1)
    grp.tags.append(tg)
    grp.multi_tags.append(mt)
    from collections import OrderedDict
    fr = b.create_data_frame("fr", "tf", col_dict=OrderedDict([("name", str), ("id", int), ("x", float)]),
                             data=[("a", 1, 1.5), ("b", 2, 2.5)])
    fr.units = ["", "mV", "s"]
    fr.definition = "def fr"
    fr.metadata = sub
    b.metadata = s
    # an earlier copy that kept its ids: two different entities of one hierarchy share an id
    b.create_data_array("a1k", copy_from=a1)
    s.copy_section(sub, keep_id=True, name="subk")
    f.create_block("other", "tb").create_data_array("a1", "ta", data=[7.0])
    g = nixio.File(dst_path, "w")
    g.create_section("taken", "x")
    g.create_section("home", "x").create_section("taken", "x")
    g.sections["home"].create_property("taken", [9])
    db = g.create_block("dblk", "x")
    g.create_block("taken", "x")
    db.create_data_array("taken", "x", data=[0.0])
    db.create_tag("taken", "x", [0.0])
    db.create_multi_tag("taken", "x", positions=db.data_arrays["taken"])
    db.create_data_frame("taken", "x", col_names=["c"], col_dtypes=[int])
    return f, g


# ---------------------------------------------------------------------------
# content pictures (API level, without ids and timestamps)
# ---------------------------------------------------------------------------
def _c_prop(p):
    return {"name": p.name, "values": _plain(p.values), "unit": p.unit, "definition": p.definition,
            "dtype": str(p.data_type)}


def _c_sec(s, recursive=True):
    return {"name": s.name, "type": s.type, "definition": s.definition,
            "props": [_c_prop(p) for p in s.props],
            "sections": [_c_sec(c) for c in s.sections] if recursive else []}


def _c_dim(d):
    k = type(d).__name__
    if k == "SetDimension":
        return (k, _plain(d.labels))
    if k == "SampledDimension":
        return (k, d.sampling_interval, d.offset, d.unit, d.label)
    return (k, _plain(d.ticks), d.unit, d.label)


def _md(e):
    m = e.metadata
    return None if m is None else _c_sec(m)


def _c_source(s):
    return {"name": s.name, "type": s.type, "sources": [_c_source(c) for c in s.sources]}


def _c_array(a):
    return {"name": a.name, "type": a.type, "unit": a.unit, "label": a.label, "definition": a.definition,
            "data": _plain(a[:]), "shape": tuple(a.shape), "dims": [_c_dim(d) for d in a.dimensions],
            "coeff": _plain(a.polynom_coefficients), "sources": [x.name for x in a.sources], "md": _md(a)}


def _c_frame(d):
    u = d.units
    return {"name": d.name, "type": d.type, "definition": d.definition, "columns": tuple(d.column_names),
            "kinds": tuple(str(x) for x in d.dtype), "rows": _plain(d[:]), "units": None if u is None else _plain(u),
            "md": _md(d)}


def _c_tag(t):
    return {"name": t.name, "type": t.type, "position": _plain(t.position), "extent": _plain(t.extent),
            "units": _plain(t.units), "refs": [_c_array(r) for r in t.references],
            "feats": [(str(ft.link_type), _c_array(ft.data)) for ft in t.features], "md": _md(t)}


def _c_mtag(m):
    return {"name": m.name, "type": m.type, "positions": _c_array(m.positions),
            "extents": None if m.extents is None else _c_array(m.extents),
            "refs": [_c_array(r) for r in m.references]}


def _c_block(b):
    return {"name": b.name, "type": b.type, "definition": b.definition, "md": _md(b),
            "arrays": [_c_array(a) for a in b.data_arrays], "tags": [_c_tag(t) for t in b.tags],
            "mtags": [_c_mtag(m) for m in b.multi_tags],
            "groups": [{"name": g.name, "das": [x.name for x in g.data_arrays], "tags": [x.name for x in g.tags],
                        "mtags": [x.name for x in g.multi_tags]} for g in b.groups],
            "frames": [_c_frame(d) for d in b.data_frames],
            "sources": [_c_source(s) for s in b.sources]}


def _content(kind, e, recursive=True):
    # a picture is only taken of concrete state (the symbolic choices have been made by then):
    # the walk runs with the tracer suspended
    with untraced():
        return _content_c(kind, e, recursive)


def _content_c(kind, e, recursive=True):
    if kind == "section":
        return _c_sec(e, recursive)
    return {"block": _c_block, "array": _c_array, "tag": _c_tag, "mtag": _c_mtag, "prop": _c_prop,
            "frame": _c_frame}[kind](e)


def _renamed(content, name):
    c = dict(content)
    c["name"] = name
    return c


def _raw_ids(h5obj):
    with untraced():
        return _raw_ids_c(h5obj)


def _raw_ids_c(h5obj):
    """relative path -> entity_id for the object and everything below it (every object once)"""
    out = {"": _plain(h5obj.attrs["entity_id"])}
    if hasattr(h5obj, "visititems"):
        def cb(name, o):
            if "entity_id" in o.attrs:
                out[name] = _plain(o.attrs["entity_id"])
        h5obj.visititems(cb)
    return out


def _all_ids(nixfile):
    with untraced():
        return _all_ids_c(nixfile)


def _all_ids_c(nixfile):
    out = []

    def cb(name, o):
        if "entity_id" in o.attrs:
            out.append(_plain(o.attrs["entity_id"]))
    nixfile._h5file.visititems(cb)
    return out


def _h5(entity):
    return entity._h5dataset.dataset if type(entity).__name__ == "Property" else entity._h5group.group


def _loc(entity):
    o = _h5(entity)
    return (o.file.filename, o.name)


# ---------------------------------------------------------------------------
# the copy operation under test
# ---------------------------------------------------------------------------
KINDS = ["block", "array", "tag", "mtag", "section_in_file", "section_in_section", "prop", "frame"]


def _scenario(f, g, kind, where):
    """-> (source entity, source parent, destination parent, copier(name, keep, children),
           container of the destination, content kind)"""
    b = f.blocks["b"]
    if kind == "block":
        dest = [f, g][where]
        return b, f, dest, (lambda name, keep, ch: dest.create_block(name, copy_from=b, keep_copy_id=keep)), \
            (lambda: dest.blocks), "block"
    if kind == "frame":
        dest = [b, f.blocks["other"], g.blocks["dblk"]][where]
        e = b.data_frames["fr"]
        return e, b, dest, (lambda name, keep, ch: dest.create_data_frame(name, copy_from=e, keep_copy_id=keep)), \
            (lambda: dest.data_frames), "frame"
    if kind in ("array", "tag", "mtag"):
        dest = [b, f.blocks["other"], g.blocks["dblk"]][where]
        if kind == "array":
            e = b.data_arrays["a1"]
            return e, b, dest, (lambda name, keep, ch: dest.create_data_array(name, copy_from=e, keep_copy_id=keep)), \
                (lambda: dest.data_arrays), "array"
        if kind == "tag":
            e = b.tags["tg"]
            return e, b, dest, (lambda name, keep, ch: dest.create_tag(name, copy_from=e, keep_copy_id=keep)), \
                (lambda: dest.tags), "tag"
        e = b.multi_tags["mt"]
        return e, b, dest, (lambda name, keep, ch: dest.create_multi_tag(name, copy_from=e, keep_copy_id=keep)), \
            (lambda: dest.multi_tags), "mtag"
    if kind == "section_in_file":
        # a top-level or a nested section copied to the top level of a file
        e = [f.sections["s"], f.sections["s"].sections["sub"], f.sections["s"]][where]
        dest = [f, f, g][where]
        return e, None, dest, (lambda name, keep, ch: dest.copy_section(e, children=ch, keep_id=keep, name=name)), \
            (lambda: dest.sections), "section"
    if kind == "section_in_section":
        e = [f.sections["s"].sections["sub"], f.sections["s"], f.sections["s"].sections["sub"]][where]
        dest = [f.sections["s"], f.sections["t"], g.sections["home"]][where]
        return e, None, dest, (lambda name, keep, ch: dest.copy_section(e, children=ch, keep_id=keep, name=name)), \
            (lambda: dest.sections), "section"
    e = f.sections["s"].props["p"]
    dest = [f.sections["s"], f.sections["t"], g.sections["home"]][where]
    return e, None, dest, (lambda name, keep, ch: dest.create_property(name, copy_from=e, keep_copy_id=keep)), \
        (lambda: dest.props), "prop"


def _mutate(kind, e, which):
    """a change made to one side after the copy"""
    if which == 0:
        e.definition = "changed"
        return
    if kind == "block":
        if which == 1:
            e.create_data_array("added", "t", data=[5.0])
        elif which == 2:
            del e.data_arrays["a2"]
        else:
            e.tags["tg"].references["a1"].label = "through the tag"
    elif kind == "array":
        if which == 1:
            e[0] = 42.0
        elif which == 2:
            e.delete_dimensions()
        else:
            e.dimensions[0].unit = "ms"
    elif kind == "frame":
        if which == 1:
            e.write_cell(42, position=[0, 1])
        elif which == 2:
            e.append_rows([("z", 9, 9.5)])
        else:
            e.units = ["", "kV", "ms"]
    elif kind == "tag":
        if which == 1:
            e.position = [7.0]
        elif which == 2:
            del e.references["a1"]
        else:
            e.references["a2"].label = "through the tag"
    elif kind == "mtag":
        if which == 1:
            e.positions[0] = 42.0
        elif which == 2:
            del e.references["a2"]
        else:
            e.extents.label = "through the tag"
    elif kind == "section":
        if which == 1:
            e.create_property("added", [1.5])
        elif which == 2:
            del e.props[e.props[0].name]
        else:
            e.props[0].values = [8, 9, 10] if e.props[0].name == "p" else [0.25]
    else:
        if which == 1:
            e.values = [3, 4, 5]
        elif which == 2:
            e.unit = "kV"
        else:
            e.extend_values([6])


def _ob_copy(where: int, nm: int, keep: bool, children: bool, side: int, mut: int) -> bool:
    """
    pre: 0 <= where < 3
    pre: 0 <= nm < 3
    pre: 0 <= side < 2
    pre: 0 <= mut < 4
    post: __return__
    """
    kind = PART
    if kind == "block":
        assume(where < 2)
    if not kind.startswith("section"):
        assume(children)
    nixfake.begin()
    with untraced():
        f, g = _build(SRC, DST)
    return _run(f, g, kind, where, nm, keep, children, side, mut,
                lambda fl: _usnap(SRC if fl is f else DST))


def _usnap(path):
    with untraced():
        return fakeh5.snapshot(fakeh5.FS[path])


WHY = []


def _no(reason):
    WHY.append(reason)
    return False


def _run(f, g, kind, where, nm, keep, children, side, mut, snap):
    del WHY[:]
    src, _, dest, copier, container, ckind = _scenario(f, g, kind, where)
    name = _pick([None, "fresh name", "taken"], nm)
    expected_name = src.name if name is None else name
    before_src = _content(ckind, src)
    ids_src = _raw_ids(_h5(src))
    dfile = dest if type(dest).__name__ == "File" else dest.file
    all_before = _all_ids(f) + (_all_ids(g) if dfile is g else [])
    taken = expected_name in [x.name for x in container()]
    s_f, s_g = snap(f), snap(g)
    try:
        r = copier("" if name is None else name, keep, children)
        refused = None
    except (NameError, ValueError, RuntimeError, KeyError, AttributeError, TypeError) as e:
        refused = "%s: %s" % (type(e).__name__, e)
    if taken:
        # an existing name at the destination is refused without side effects
        if refused is None:
            return _no("existing name accepted")
        if snap(f) != s_f or snap(g) != s_g:
            return _no("refused copy left side effects")
        return True
    if refused is not None:
        return _no("valid copy refused: " + refused)
    # the returned object is the copy: right name, right place
    if r.name != expected_name:
        return _no("returned object is called %r, not %r" % (r.name, expected_name))
    cont = container()
    if [x.name for x in cont].count(expected_name) != 1:
        return _no("destination does not hold exactly one %r" % expected_name)
    there = [x for x in cont if x.name == expected_name][0]
    if _loc(there) != _loc(r) or _loc(r) == _loc(src):
        return _no("returned object is not the copy: %s" % (_loc(r),))
    # complete: same observable content (non-recursive section copies: properties only)
    want = _renamed(_content(ckind, src, children), expected_name)
    got = _content(ckind, r, True)
    if got != want:
        return _no("content differs: %r" % sorted(k for k in want if got.get(k) != want[k]))
    if _content(ckind, src) != before_src:
        return _no("source changed by the copy")
    if _raw_ids(_h5(src)) != ids_src:
        return _no("ids of the source changed by the copy")
    # id policy
    ids_new = _raw_ids(_h5(r))
    if keep:
        if any(ids_new[k] != ids_src.get(k) for k in ids_new):
            return _no("ids not kept")
    else:
        vals = list(ids_new.values())
        if len(set(vals)) != len(vals):
            return _no("fresh ids not unique")
        if any(v in all_before for v in vals):
            return _no("an id was not replaced: %r" % sorted(k for k, v in ids_new.items() if v in all_before))
    if children and set(ids_new) != set(ids_src):
        return _no("object set differs")
    # links among the copied entities point to the copies
    if kind == "block":
        r.data_arrays["a1"].label = "relabelled in the copy"
        if r.tags["tg"].references["a1"].label != "relabelled in the copy" or \
                r.groups["grp"].data_arrays["a1"].label != "relabelled in the copy" or \
                r.multi_tags["mt"].positions.label != "relabelled in the copy":
            return _no("internal links do not point to the copied array")
        if src.data_arrays["a1"].label != "lab":
            return _no("internal link of the copy points to the original")
        r.data_arrays["a1"].label = "lab"
    # independent: a change on one side is invisible on the other
    a, b_ = (r, src) if side == 0 else (src, r)
    if not children and mut == 3:
        mut = 1
    other_before = _content(ckind, b_)
    _mutate(ckind, a, mut)
    if _content(ckind, b_) != other_before:
        return _no("a change of one side is visible on the other")
    # the RETURNED handle lives in the destination: its file is the destination file, what it accepts as
    # link targets are the destination block's entities, and copying IT copies the copy (as it is now)
    if getattr(r, "file", dfile)._h5file.filename != dfile._h5file.filename:
        return _no("the returned handle belongs to another file")
    if kind in ("tag", "mtag"):
        own = [x for x in dest.data_arrays][0]
        foreign = src.references[0] if len(src.references) else None
        try:
            r.references.append(own)
        except Exception as e:  # noqa
            return _no("the returned copy refuses an array of its own block: %s" % type(e).__name__)
        if own.id not in [x.id for x in there.references]:
            return _no("a reference appended through the returned handle is not in the copy")
        if foreign is not None and dest is not src_parent_of(src) and foreign.id not in [x.id for x in dest.data_arrays]:
            try:
                r.references.append(foreign)
                return _no("the returned copy accepts an array of the source's block")
            except Exception:  # noqa
                pass
    if kind in ("array", "tag", "mtag", "frame"):
        now = _content(ckind, r)
        again = copier2(kind, dest, r, "copy of the copy")
        if _content(ckind, again) != _renamed(now, "copy of the copy"):
            return _no("copying the returned handle does not copy the copy")
    return True


def src_parent_of(e):
    return e._parent


def copier2(kind, dest, e, name):
    if kind == "array":
        return dest.create_data_array(name, copy_from=e)
    if kind == "tag":
        return dest.create_tag(name, copy_from=e)
    if kind == "mtag":
        return dest.create_multi_tag(name, copy_from=e)
    return dest.create_data_frame(name, copy_from=e)


def validate():
    return {"fakeh5_vs_h5py": fakeh5.validate_against_h5py()}


def _replay_copy(args):
    import os
    import shutil
    import tempfile
    nixfake.uninstall()
    tmp = tempfile.mkdtemp(prefix="vf_c20_")
    try:
        f, g = _build(os.path.join(tmp, "src.nix"), os.path.join(tmp, "dst.nix"))

        def snap(fl):
            import nixio  # noqa
            out = []

            def cb(name, o):
                out.append((name, sorted((k, repr(_plain(v))) for k, v in o.attrs.items()),
                            repr(_plain(o[...])) if hasattr(o, "shape") and o.shape is not None else None))
            fl._h5file.visititems(cb)
            return out
        try:
            ok = _run(f, g, PART, args["where"], args["nm"], args["keep"], args["children"], args["side"],
                      args["mut"], snap)
            detail = {"holds_on_real_stack": ok}
        except Exception as e:  # noqa
            import traceback
            ok = False
            detail = {"exception_on_real_stack": traceback.format_exc()[-1500:]}
        finally:
            for fl in (f, g):
                try:
                    fl.close()
                except Exception:  # noqa
                    pass
        return (not ok), detail
    finally:
        shutil.rmtree(tmp, ignore_errors=True)


OBLIGATIONS = [
    Ob("copy_complete_independent_linked", _ob_copy, timeout=900, partition=KINDS,
       functions=["nixio.hdf5.h5group.H5Group.copy", "nixio.block.Block._copy_objects",
                  "nixio.file.File.create_block", "nixio.file.File.copy_section",
                  "nixio.section.Section.copy_section", "nixio.section.Section.create_property"],
       replay=_replay_copy,
       outside="one source entity of each kind (block, array, data frame, tag, multi-tag, top-level and nested "
               "section, property) with the link structure of the fixture; 2-3 destinations each (same "
               "parent, other parent, other file); one of four later changes on either side; data "
               "frames; what libhdf5's H5Ocopy does with bytes"),
]

ASSUMPTIONS = ["H5Ocopy = deep copy of the hierarchy with the sharing rules pinned by the differential script",
               "fakeh5 (validated against h5py by the differential script each run)"]
