"""C15 - Calibration is applied on every read and never touches the stored values.

Real code executed symbolically on fakeh5: DataArray._read_data,
polynom_coefficients / expansion_origin getters and setters,
util.apply_polynomial, DataSet.__getitem__ / read_direct / __array__,
DataView._read_data, DataArray.get_slice.

PARTIAL claim.  Stored raw values, coefficients and origin are exact rationals
with symbolic numerators (k/16); the NumPy calls of data_array.py and util.py are
served by a pure-Python array stand-in (SArr) whose polyval is Horner's rule
(validated against NumPy), which records the element type so that 'calibrated
reads are double, uncalibrated reads keep the stored type' can be asserted.
NOT decided: float rounding of the polynomial and NumPy's integer -> double
conversion (the statement's 'double-precision numbers' is checked as the element
type only).
"""
from vf.ob import Ob, assume, untraced
from vf import models, fakeh5, nixfake
from vf.models import Q

PROPERTY = "C15"
PART = None
PATH = "/v/c15.nix"
LIM = 64


class SArr:
    """1-d stand-in for numpy.ndarray as used by the calibration path"""

    def __init__(self, items, dtype):
        self.items = list(items)
        self.dtype = dtype
        self._shape = (len(self.items),)

    @property
    def shape(self):
        return self._shape

    @shape.setter
    def shape(self, v):
        self._shape = tuple(v)

    def astype(self, dtype):
        return SArr(self.items, dtype)

    def __len__(self):
        return len(self.items)

    def __iter__(self):
        return iter(self.items)

    def __getitem__(self, k):
        if isinstance(k, slice):
            return SArr(self.items[k], self.dtype)
        return self.items[k]

    def __setitem__(self, k, v):
        if isinstance(k, slice) and k == slice(None):
            vals = list(v.items) if isinstance(v, SArr) else list(v)
            assert len(vals) == len(self.items)
            self.items = vals
        else:
            self.items[k] = v

    def __sub__(self, o):
        return SArr([x - o for x in self.items], self.dtype)

    def tolist(self):
        return list(self.items)


class _Poly:
    @staticmethod
    def polyval(x, c):
        c = list(c)
        out = []
        for v in x:
            acc = c[-1]
            for k in range(len(c) - 2, -1, -1):
                acc = acc * v + c[k]
            out.append(acc)
        return SArr(out, getattr(x, "dtype", None))


class _PolyNS:
    polynomial = _Poly


class _CalNp(models.NpShim):
    polynomial = _PolyNS

    @staticmethod
    def array(x, *a, **kw):
        if isinstance(x, SArr):
            return x
        if isinstance(x, fakeh5._FArr):
            return SArr(x.data, x.dtype.dt)
        if isinstance(x, fakeh5._FScalar):
            s = SArr([x.value], x.dtype.dt)
            s.shape = ()
            return s
        if isinstance(x, (list, tuple)) and len(x) == 0:
            return SArr([], None)
        import numpy
        return numpy.array(x, *a, **kw)


def setup():
    import nixio.data_array as A
    import nixio.util.util as UU
    import nixio.data_view as V
    models.install_quiet_format()
    models.install_slice_model()
    nixfake.install()
    shim = _CalNp()
    A.np = shim
    UU.np = shim
    V.np = shim


def _pick(tbl, i):
    for k in range(len(tbl)):
        if i == k:
            return tbl[k]
    assume(False)


def _expect(x, coeffs, origin):
    """c0 + c1 (x-o) + c2 (x-o)^2 + ...  in exact rationals (independent of Horner)"""
    o = origin if origin is not None else Q(0, 1)
    d = x - o
    if not coeffs:
        return d
    total = Q(0, 1)
    power = Q(1, 1)
    for c in coeffs:
        total = total + c * power
        power = power * d
    return total


def _mk(n, vals, dtype):
    import nixio
    with untraced():
        nixfake.begin()
        f = nixio.File(PATH, "w")
        blk = f.create_block("b", "t")
        da = blk.create_data_array("da", "t", dtype=dtype, shape=(n,))
    ds = da._h5group.group["data"]
    ds.node.value = [Q(v, 16) for v in vals[:n]]
    return f, blk, da, ds


# ---------------------------------------------------------------------------
# 1. every read path returns the polynomial of the stored values   PART = (n, ncoef)
# ---------------------------------------------------------------------------
def _ob_read(x0: int, x1: int, x2: int, c0: int, c1: int, c2: int, on: int, omode: int,
             path: int, k: int, stored: int) -> bool:
    """
    pre: -LIM <= x0 <= LIM and -LIM <= x1 <= LIM and -LIM <= x2 <= LIM
    pre: -LIM <= c0 <= LIM and -LIM <= c1 <= LIM and -LIM <= c2 <= LIM and -LIM <= on <= LIM
    pre: 0 <= omode < 3 and 0 <= path < 6 and 0 <= stored < 3
    post: __return__
    """
    import numpy as np
    import nixio
    n, ncoef = PART
    sdtype = _pick([np.int16, np.float32, np.float64], stored)
    f, blk, da, ds = _mk(n, (x0, x1, x2), sdtype)
    raw = list(ds.node.value)
    coeffs = [Q(c, 16) for c in (c0, c1, c2)[:ncoef]]
    origin = _pick([None, Q(0, 1), Q(on, 16)], omode)
    if ncoef:
        da.polynom_coefficients = coeffs
    if origin is not None:
        da.expansion_origin = origin
    calibrated = ncoef > 0 or (origin is not None and bool(origin))
    want = [(_expect(x, coeffs, origin) if calibrated else x) for x in raw]
    # the read paths
    if path == 0:
        got = da[:]
        exp = want
    elif path == 1:
        assume(0 <= k < n)
        got = da[k]
        exp = [want[k]]
    elif path == 2:
        assume(0 <= k <= n)
        got = da[k:]
        exp = want[k:]
    elif path == 3:
        assume(0 <= k <= n)
        got = da.get_slice([0], [k])[:]
        exp = want[:k]
    elif path == 4:
        # a real C-contiguous ndarray buffer of the array's shape, as the docs demand
        buf = np.empty((n,), dtype=object)
        da.read_direct(buf)
        got = buf
        exp = want
    else:
        assume(0 <= k < n)
        got = da.get_slice([k], [n - k])[0]
        exp = [want[k]]
    items = list(got)
    if len(items) != len(exp):
        return False
    for g, w in zip(items, exp):
        if not (g == w):
            return False
    if path != 4:
        if calibrated:
            if got.dtype is not nixio.DataType.Double:
                return False          # calibrated reads are double precision
        elif got.dtype is not sdtype:
            return False              # uncalibrated reads keep the stored element type
    # the stored raw values are untouched by reading
    now = ds.node.value
    if len(now) != len(raw):
        return False
    for a, b in zip(now, raw):
        if a is not b:
            return False
    return True


# ---------------------------------------------------------------------------
# 2. set / change / clear sequences never alter the stored values; the getters
#    return what was set; clearing both returns raw reads      PART = n
# ---------------------------------------------------------------------------
def _ob_set_clear(x0: int, x1: int, c0: int, c1: int, on: int, s1: int, s2: int, s3: int) -> bool:
    """
    pre: -LIM <= x0 <= LIM and -LIM <= x1 <= LIM and -LIM <= c0 <= LIM and -LIM <= c1 <= LIM
    pre: -LIM <= on <= LIM
    pre: 0 <= s1 < 6 and 0 <= s2 < 6 and 0 <= s3 < 6
    post: __return__
    """
    import numpy as np
    f, blk, da, ds = _mk(2, (x0, x1, 0), np.float64)
    raw = list(ds.node.value)
    coeffs, origin = [], None
    for step in (s1, s2, s3):
        op = _pick(["set2", "set1", "clear_none", "clear_empty", "origin", "origin_none"], step)
        if op == "set2":
            coeffs = [Q(c0, 16), Q(c1, 16)]
            da.polynom_coefficients = coeffs
        elif op == "set1":
            coeffs = [Q(c1, 16)]
            da.polynom_coefficients = coeffs
        elif op == "clear_none":
            coeffs = []
            da.polynom_coefficients = None
        elif op == "clear_empty":
            coeffs = []
            da.polynom_coefficients = []
        elif op == "origin":
            origin = Q(on, 16)
            da.expansion_origin = origin
        else:
            origin = None
            da.expansion_origin = None
        got_c = list(da.polynom_coefficients)
        if len(got_c) != len(coeffs) or not all(a == b for a, b in zip(got_c, coeffs)):
            return False
        got_o = da.expansion_origin
        if (got_o is None) != (origin is None) or (origin is not None and not (got_o == origin)):
            return False
        now = ds.node.value
        if len(now) != 2 or now[0] is not raw[0] or now[1] is not raw[1]:
            return False
        calibrated = len(coeffs) > 0 or (origin is not None and bool(origin))
        want = [(_expect(x, coeffs, origin) if calibrated else x) for x in raw]
        items = list(da[:])
        if len(items) != 2 or not (items[0] == want[0] and items[1] == want[1]):
            return False
    return True


# ---------------------------------------------------------------------------
# 3. calibration changed through ANOTHER handle of the same array is seen by a
#    handle that has already been read from; read_direct into a buffer of the
#    stored element type and shape
# ---------------------------------------------------------------------------
def _ob_two_handles(x0: int, c0: int, c1: int, on: int, step1: int, step2: int) -> bool:
    """
    pre: -LIM <= x0 <= LIM and -LIM <= c0 <= LIM and -LIM <= c1 <= LIM and -LIM <= on <= LIM
    pre: 0 <= step1 < 4 and 0 <= step2 < 4
    post: __return__
    """
    import numpy as np
    f, blk, da, ds = _mk(1, (x0, 0, 0), np.float64)
    raw = ds.node.value[0]
    a = f.blocks["b"].data_arrays["da"]          # handle A: read before any calibration exists
    view = a.get_slice([0], [1])
    if not (list(a[:])[0] == raw and list(view[:])[0] == raw):
        return False
    coeffs, origin = [], None
    for step in (step1, step2):
        b = f.blocks["b"].data_arrays["da"]      # handle B: a different Python object each time
        op = _pick(["coeff", "origin", "clear_coeff", "clear_origin"], step)
        if op == "coeff":
            coeffs = [Q(c0, 16), Q(c1, 16)]
            b.polynom_coefficients = coeffs
        elif op == "origin":
            origin = Q(on, 16)
            b.expansion_origin = origin
        elif op == "clear_coeff":
            coeffs = []
            b.polynom_coefficients = None
        else:
            origin = None
            b.expansion_origin = None
        calibrated = len(coeffs) > 0 or (origin is not None and bool(origin))
        want = _expect(raw, coeffs, origin) if calibrated else raw
        if not (list(a[:])[0] == want and list(view[:])[0] == want and list(b[:])[0] == want):
            return False
    return True


def _ob_read_direct_typed(ci: int, oi: int, ti: int) -> bool:
    """
    pre: 0 <= ci < 3 and 0 <= oi < 3 and 0 <= ti < 2
    post: __return__
    """
    import numpy as np
    sdtype = _pick([np.float64, np.int32], ti)
    f, blk, da, ds = _mk(2, (0, 0, 0), sdtype)
    ds.node.value = [3, 5] if sdtype is np.int32 else [3.0, 5.0]
    coeffs = _pick([[], [1.0, 2.0], [0.5, 0.0, 1.0]], ci)
    origin = _pick([None, 0.0, 1.0], oi)
    if coeffs:
        da.polynom_coefficients = coeffs
    if origin is not None:
        da.expansion_origin = origin
    calibrated = len(coeffs) > 0 or bool(origin)
    # the buffer the documentation asks for: stored shape, C-contiguous, and - the common
    # case - the stored element type (double for calibrated reads)
    buf = np.zeros((2,), dtype=(np.float64 if calibrated else sdtype))
    da.read_direct(buf)
    o = origin if origin else 0.0
    want = [sum(c * (x - o) ** k for k, c in enumerate(coeffs)) if coeffs else (x - o)
            for x in (3.0, 5.0)] if calibrated else [3.0, 5.0]
    return [float(v) for v in buf] == want


def validate():
    """Horner shim == numpy.polynomial.polynomial.polyval; SArr slicing == ndarray slicing"""
    import numpy as np
    n = 0
    for c in ([1.0], [0.5, 2.0], [1.0, 0.0, -3.0], [0.0, 0.0, 0.0, 2.0], [1.0, 2.0, 3.0, 4.0, 5.0]):
        x = [0.0, 1.0, -2.5, 4.0]
        a = _Poly.polyval(SArr(x, None), c).tolist()
        b = np.polynomial.polynomial.polyval(np.array(x), c).tolist()
        if a != b:
            raise AssertionError("polyval shim differs: %r vs %r" % (a, b))
        n += 1
    return {"polyval_cases": n, "fakeh5_vs_h5py": fakeh5.validate_against_h5py()}


def _real(fn_name, args):
    """real NumPy / h5py with floats: the same sequence through the public API"""
    import os
    import shutil
    import tempfile
    import numpy as np
    import nixio
    tmp = tempfile.mkdtemp(prefix="vf_c15_")
    try:
        p = os.path.join(tmp, "t.nix")
        import subprocess
        import sys
        import json
        code = _REAL_SCRIPT % (json.dumps({"fn": fn_name, "args": args, "part": list(PART) if
                                           isinstance(PART, tuple) else PART, "path": p}),)
        env = dict(os.environ)
        env["PYTHONPATH"] = os.environ.get("VERIF_REPO", "/repo")
        pr = subprocess.run([sys.executable, "-c", code], stdout=subprocess.PIPE, stderr=subprocess.STDOUT,
                            text=True, timeout=120, env=env)
        out = pr.stdout.strip().splitlines()
        last = out[-1] if out else ""
        if last.startswith("RESULT "):
            r = json.loads(last[7:])
            return r["violated"], r
        return None, {"replay_output": pr.stdout[-800:]}
    finally:
        shutil.rmtree(tmp, ignore_errors=True)


_REAL_SCRIPT = r'''
import json, sys
import numpy as np
import nixio
spec = json.loads(%r)
a = spec["args"]; fn = spec["fn"]; part = spec["part"]
f = nixio.File(spec["path"], "w")
blk = f.create_block("b", "t")
viol = False; detail = {}
def poly(x, cs, o):
    d = x - (o if o is not None else 0.0)
    if not cs: return d
    return sum(c * d ** k for k, c in enumerate(cs))
try:
    if fn == "_ob_read":
        n, ncoef = part
        sd = [np.int16, np.float32, np.float64][a["stored"]]
        raw = np.array([a["x0"], a["x1"], a["x2"]][:n], dtype=np.float64) / 16
        if sd is np.int16: raw = np.round(raw)
        da = blk.create_data_array("da", "t", dtype=sd, data=raw.astype(sd))
        cs = [c / 16 for c in (a["c0"], a["c1"], a["c2"])][:ncoef]
        o = [None, 0.0, a["on"] / 16][a["omode"]]
        if ncoef: da.polynom_coefficients = cs
        if o is not None: da.expansion_origin = o
        cal = ncoef > 0 or bool(o)
        want = np.array([poly(float(x), cs, o) if cal else x for x in raw.astype(sd)])
        k = a["k"]; path = a["path"]
        if path == 0: got, exp = da[:], want
        elif path == 1: got, exp = da[k], want[k:k+1]
        elif path == 2: got, exp = da[k:], want[k:]
        elif path == 3: got, exp = da.get_slice([0], [k])[:], want[:k]
        elif path == 4:
            buf = np.zeros(n, dtype=np.float64 if cal else sd); da.read_direct(buf); got, exp = buf, want
        else: got, exp = da.get_slice([k], [n - k])[0], want[k:k+1]
        got = np.asarray(got)
        ok = got.shape == np.asarray(exp).shape and np.allclose(got, exp, rtol=1e-9, atol=1e-9)
        if path != 4:
            ok = ok and (got.dtype == np.float64 if cal else got.dtype == np.dtype(sd))
        ok = ok and np.array_equal(np.asarray(f.blocks[0].data_arrays[0]._h5group.group["data"][:]), raw.astype(sd))
        viol = not ok
        detail = {"got": got.tolist(), "dtype": str(got.dtype), "want": np.asarray(exp).tolist(), "calibrated": cal}
    else:
        viol = None
        detail = {"skipped": "set/clear sequences are replayed in the harness only"}
except Exception as e:
    import traceback
    viol = True
    detail = {"raised": traceback.format_exc()[-500:]}
detail["violated"] = viol
print("RESULT " + json.dumps(detail))
'''

_A = "nixio.data_array.DataArray."
OBLIGATIONS = [
    Ob("every_read_path_calibrated", _ob_read, timeout=900,
       partition_by_tier={"quick": [(n, c) for n in (1, 3) for c in (0, 1, 3)],
                          "thorough": [(n, c) for n in (1, 2, 3) for c in (0, 1, 2, 3)]},
       functions=[_A + "_read_data", _A + "polynom_coefficients", _A + "expansion_origin",
                  "nixio.util.util.apply_polynomial", "nixio.data_view.DataView._read_data",
                  "nixio.data_set.DataSet.read_direct", _A + "get_slice"],
       replay=lambda a: _real("_ob_read", a),
       outside="coefficient lists longer than 3 (quick) ; rank > 1; float rounding of the polynomial; "
               "reads through tags (they read through the same DataView path, C08)"),
    Ob("calibration_through_another_handle", _ob_two_handles, timeout=900,
       functions=[_A + "_read_data", _A + "polynom_coefficients", _A + "expansion_origin",
                  "nixio.data_view.DataView._read_data"],
       outside="two calibration changes through fresh handles; one stored value"),
    Ob("read_direct_typed_buffer", _ob_read_direct_typed, timeout=300,
       functions=["nixio.data_set.DataSet.read_direct", _A + "_read_data"],
       outside="concrete stored values 3 and 5, three coefficient sets, three origins"),
    Ob("set_clear_sequences", _ob_set_clear, timeout=900,
       functions=[_A + "polynom_coefficients", _A + "expansion_origin", _A + "_read_data"],
       outside="sequences longer than 3 steps"),
]

ASSUMPTIONS = ["NumPy arrays on the calibration path are represented by a pure-Python stand-in with "
               "exact rational arithmetic; 'double precision' is checked as the element type only"]
