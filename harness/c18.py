"""C18 - Format upgrade preserves content, is idempotent, resumable after interruption.

PARTIAL claim.  Real code executed symbolically on fakeh5: everything in
nixio/cmd/upgrade.py (collect_tasks, the four task factories and their closures,
process_tasks, file_upgrade), File.__init__/_check_header (is the result openable for
writing, is an interrupted file still refused), and the read paths of Property
(old compound format and new), Section, DataArray, RangeDimension (old alias form
and DimensionLink form) that produce the before / after pictures.

Symbolic: the INTERRUPTION POINT (the process dies at the n-th open of the file with
write intent - every conversion step of upgrade.py, i.e. every task and every single
property / dimension conversion inside a task, begins with exactly such an open, so
"n" ranges over all points BETWEEN steps; n is an unbounded integer), selectors of the
format version (5 old / 5 current-or-newer triples; upgrade.py renders the version as
text, which keeps arbitrary integers out of reach), of the kind of file id (valid /
invalid / missing), of the property set and the number of alias range dimensions.

Decided here: the order and completeness of the conversion steps, that the version is
raised last, that a re-run after any interruption completes with the same result,
that content read through nixio before equals content read after, that per-value
extras stay retrievable, that an up-to-date file is not touched at all.
NOT decided: what libhdf5 leaves on disk when the process dies INSIDE a step (the
statement speaks of interruptions between steps), HDF5 compound-type conversion of
the values themselves (the fake keeps Python values; the real-stack replay runs the
same scenario on real h5py with the interruption injected at the same open).
"""
import contextlib
import io

from vf.ob import Ob, assume, untraced
from vf import models, fakeh5, nixfake

PROPERTY = "C18"
PART = None
PATH = "/v/c18.nix"
VALID_ID = "11111111-2222-4333-8444-555555555555"
EXTRAS = ("reference", "filename", "encoder", "checksum")

# property sets: (section path, name, kind, rows(value, uncertainty, reference, filename, encoder,
# checksum), unit, definition)
PSETS = [
    [],
    [("s", "p", "int", [(1, 0.5, "", "", "", ""), (2, 0.5, "", "", "", ""), (3, 0.5, "", "", "", "")],
      "V", "def p")],
    [("s", "p", "int", [(7, 0.0, "", "", "", "")], None, None),
     ("s", "q", "str", [("a", 0.0, "r1", "", "", ""), ("b", 0.25, "", "", "", "c")], None, "def q"),
     ("s/sub", "p", "float", [(1.5, 0.0, "", "fn", "enc", ""), (2.5, 0.0, "", "fn", "", "")], "mV", None)],
    [("s", "z", "bool", [(True, 0.0, "", "", "", ""), (False, 0.0, "", "", "", "")], None, None),
     ("s/sub", "e", "float", [], "s", None),
     ("t", "w", "str", [("x", 2.0, "ref", "", "", "")], None, None)],
    # names: the second property is called `r` (nm = 0) or `q.reference` (nm = 1), i.e. the very name
    # the converter wants to give to the references of `q`
    [("s", "q", "str", [("a", 0.0, "r1", "", "", ""), ("b", 0.0, "", "", "", "")], None, None),
     ("s", "NM", "str", [("x", 0.0, "", "", "", "")], None, None)],
    # thorough tier only
    [("s", "a", "int", [(1, 0.1, "ra", "fa", "ea", "ca"), (2, 0.2, "rb", "fb", "eb", "cb")], "kV", "d"),
     ("s", "b", "float", [(0.5, 1.0, "", "", "", ""), (1.5, 1.0, "", "", "", ""), (2.5, 1.0, "", "", "", "")],
      None, None),
     ("s/sub", "a", "str", [("", 0.0, "", "", "", "x")], None, "dd"),
     ("t", "c", "bool", [(False, 0.0, "", "", "", "")], None, None)],
    [("s/sub", "only", "int", [(-(2 ** 40), 0.0, "", "", "", ""), (2 ** 40, 0.0, "", "", "", ""), (0, 0.0, "", "", "", "")],
      None, None),
     ("s/sub", "other", "float", [(1e300, 0.0, "", "", "", ""), (-0.0, 5e-324, "", "", "", "")], "s", None)],
]
NAMES = ["r", "q.reference"]


def _pset(part, nm):
    if part != 4:
        assume(nm == 0)
        return PSETS[part]
    name = _pick(NAMES, nm)
    return [(sp, name if n == "NM" else n, k, rows, u, d) for sp, n, k, rows, u, d in PSETS[part]]


def setup():
    models.install_quiet_format()
    nixfake.install()


def _pick(tbl, i):
    for k in range(len(tbl)):
        if i == k:
            return tbl[k]
    assume(False)


def _plain(v):
    import numpy as np
    if isinstance(v, fakeh5._FScalar):
        v = v.value
    if isinstance(v, np.generic):
        v = v.item()
    if isinstance(v, bytes):
        v = v.decode("utf-8")
    if isinstance(v, (tuple, list)) or hasattr(v, "tolist") and not isinstance(v, (str, bytes)):
        return tuple(_plain(x) for x in (v.tolist() if hasattr(v, "tolist") else v))
    return v


def _lib_version():
    import nixio.file as nf
    return tuple(nf.HDF_FF_VERSION)


# ---------------------------------------------------------------------------
# fixture: a file written by the current library, then "aged" by hand
# ---------------------------------------------------------------------------
def _build(h5, path, pset, ndims, version, idkind, old_props):
    """h5 = fakeh5.MODULE or the real h5py; everything concrete except `version`"""
    import nixio
    f = nixio.File(path, "w")
    blk = f.create_block("b", "t")
    f.create_block("b2", "t")
    plain = blk.create_data_array("plain", "t", data=[0.0, 1.0, 4.0])
    plain.append_range_dimension(ticks=[0.5, 1.5, 9.0])
    plain.dimensions[0].unit = "s"
    plain.dimensions[0].label = "own"
    for k in range(ndims):
        da = blk.create_data_array("da%d" % k, "t", data=[1.0 + k, 2.0 + k, 3.5 + k])
        da.unit = "mV"
        da.label = "lab%d" % k
        if k == 1:
            da.append_set_dimension(["a", "b", "c"])      # the alias descriptor is not the first one
        da.append_range_dimension(ticks=[1.0 + k, 2.0 + k, 3.5 + k])
    secs = {}
    for spath in ("s", "s/sub", "t"):
        parent, _, name = spath.rpartition("/")
        secs[spath] = (secs[parent] if parent else f).create_section(name, "t")
    for spath, name, kind, rows, unit, definition in pset:
        vals = [r[0] for r in rows]
        dt = {"int": nixio.DataType.Int64, "float": nixio.DataType.Double, "bool": nixio.DataType.Bool,
              "str": nixio.DataType.String}[kind]
        p = secs[spath].create_property(name, vals if vals else dt)
        if unit:
            p.unit = unit
        if definition:
            p.definition = definition
    f.close()
    with h5.File(path, "a") as h:
        h.attrs["version"] = version
        if idkind == "valid":
            h.attrs["id"] = VALID_ID
        elif idkind == "invalid":
            h.attrs["id"] = "not-a-uuid"
        else:
            del h.attrs["id"]
        if old_props:
            for spath, name, kind, rows, unit, definition in pset:
                gpath = "/metadata/" + "/sections/".join(spath.split("/")) + "/properties"
                d = h[gpath + "/" + name]
                attrs = [(k, d.attrs[k]) for k in d.attrs.keys()]
                del h[gpath + "/" + name]
                nd = fakeh5.make_old_property(h5, h[gpath], name, kind, rows)
                for k, v in attrs:
                    nd.attrs[k] = v
        for k in range(ndims):
            dag = h["/data/b/data_arrays/da%d" % k]
            dim = dag["dimensions"][str(2 if k == 1 else 1)]
            del dim["ticks"]
            dim[dag.attrs["entity_id"]] = dag


def _expected(pset, ndims):
    """what must be readable before and after, from the configuration alone"""
    exp = {}
    for spath, name, kind, rows, unit, definition in pset:
        exp[("prop", spath, name)] = (tuple(r[0] for r in rows), unit, definition)
    exp[("array", "plain")] = ((0.0, 1.0, 4.0), None, None)
    exp[("dim", "plain", 1)] = ("range", (0.5, 1.5, 9.0), "s", "own", False)
    for k in range(ndims):
        data = (1.0 + k, 2.0 + k, 3.5 + k)
        exp[("array", "da%d" % k)] = (data, "mV", "lab%d" % k)
        if k == 1:
            exp[("dim", "da1", 1)] = ("set", ("a", "b", "c"), None, None, None)
        exp[("dim", "da%d" % k, 2 if k == 1 else 1)] = ("range", data, "mV", "lab%d" % k, True)
    exp[("blocks",)] = ("b", "b2")
    exp[("sections",)] = ("s", "s/sub", "t")
    return exp


def _picture(f, genuine=None):
    """the same things read through the nixio API.  genuine = the (section path, name) pairs of the
    properties of the original file: any OTHER property found is returned separately (that is where
    per-value extras may have gone), together with the uncertainty attributes"""
    pic = {}
    others = {}
    unc_attr = {}
    secnames = []

    def sec(s, path):
        secnames.append(path)
        for p in s.props:
            if genuine is not None and (path, p.name) not in genuine:
                others[(path, p.name)] = _plain(p.values)
                continue
            pic[("prop", path, p.name)] = (_plain(p.values), p.unit, p.definition)
            if genuine is not None and p.uncertainty is not None:
                unc_attr[(path, p.name)] = _plain(p.uncertainty)
        for c in s.sections:
            sec(c, path + "/" + c.name)
    for s in f.sections:
        sec(s, s.name)
    pic[("sections",)] = tuple(secnames)
    pic[("blocks",)] = tuple(b.name for b in f.blocks)
    for da in f.blocks["b"].data_arrays:
        pic[("array", da.name)] = (_plain(da[:]), da.unit, da.label)
        for i, d in enumerate(da.dimensions):
            if type(d).__name__ == "RangeDimension":
                pic[("dim", da.name, i + 1)] = ("range", _plain(d.ticks), d.unit, d.label, bool(d.is_alias))
            else:
                pic[("dim", da.name, i + 1)] = ("set", _plain(d.labels), None, None, None)
    return pic, (others, unc_attr)


def _genuine(pset):
    return set((spath, name) for spath, name, _, _, _, _ in pset)


def _extras_ok(pset, extras, old_props=True):
    """per-value extras of old properties remain retrievable: as an additional list property of the
    same section holding one entry per value (preferably `<name>.<extra>`), or - for an uncertainty
    that is the same for all values - as the property's uncertainty attribute; and nothing else
    has appeared"""
    others, unc_attr = extras
    if not old_props:
        return not others
    unused = dict(others)

    def take(spath, name, ex, col):
        pref = (spath, name + "." + ex)
        if pref in unused and tuple(unused[pref]) == tuple(col):
            del unused[pref]
            return True
        for k in sorted(unused):
            if k[0] == spath and tuple(unused[k]) == tuple(col):
                del unused[k]
                return True
        return False
    for spath, name, kind, rows, unit, definition in pset:
        unc = [r[1] for r in rows]
        if any(u != 0 for u in unc):
            if len(set(unc)) == 1 and unc_attr.get((spath, name)) == unc[0]:
                pass
            elif not take(spath, name, "uncertainty", unc):
                return False
        elif unc_attr.get((spath, name)) not in (None, 0, 0.0):
            return False
        for j, ex in enumerate(EXTRAS):
            col = [r[2 + j] for r in rows]
            if any(col) and not take(spath, name, ex, col):
                return False
    return not unused


def _upgrade(up):
    with contextlib.redirect_stdout(io.StringIO()):
        return up.file_upgrade(PATH, quiet=True)


def _raw_ok(h5, path, ndims):
    """new-format storage: no compound property left anywhere; every former alias descriptor has a
    'link' group holding a hard link to its own array"""
    with h5.File(path, "r") as h:
        bad = []

        def visit(name, obj):
            if isinstance(obj, h5.Dataset) and len(obj.dtype):
                bad.append(name)
        h.visititems(visit)
        if bad:
            return False
        for k in range(ndims):
            dag = h["/data/b/data_arrays/da%d" % k]
            dim = dag["dimensions"][str(2 if k == 1 else 1)]
            if "link" not in dim or "ticks" in dim:
                return False
            daid = dag.attrs["entity_id"]
            link = dim["link"]
            if daid not in link or link[daid].attrs["entity_id"] != daid:
                return False
            if link.attrs.get("data_object_type") != "DataArray":
                return False
    return True


# ---------------------------------------------------------------------------
# 1. interruption at any point between steps, then a re-run     PART = property set
# ---------------------------------------------------------------------------
OLD_VERSIONS = [(1, 0, 0), (1, 0, 7), (1, 1, 0), (1, 1, 1), (1, 2, 0)]
NEW_VERSIONS = [None, (1, 2, 2), (1, 3, 0), (2, 0, 0), (1, 10, 0)]        # None = the library's own


def _ob_interrupt(nd: int, idk: int, vi: int, crash: int, nm: int) -> bool:
    """
    pre: 0 <= nd <= 2
    pre: 0 <= idk < 3
    pre: 0 <= vi < 5
    pre: crash >= 1
    pre: 0 <= nm < 2
    post: __return__
    """
    import nixio
    from nixio.cmd import upgrade as up
    lib = _lib_version()
    _, vy, vz = _pick(OLD_VERSIONS, vi)
    assume((1, vy, vz) < lib)
    pset = _pset(PART, nm)
    ndims = _pick([0, 1, 2], nd)
    idkind = _pick(["valid", "invalid", "missing"], idk)
    if (1, vy, vz) < (1, 1, 1):            # fork: the fixture builder below is concrete
        old_props = True
    else:
        old_props = False
    nixfake.begin()
    with untraced():
        _build(fakeh5.MODULE, PATH, pset, ndims, (1, 1, 0), idkind, old_props)
    store = fakeh5.FS[PATH]
    store.root.attrs["version"] = (1, vy, vz)
    expected = _expected(pset, ndims)
    # reads as before: what nixio itself reads from the old file (when it may be read at all)
    readable_before = idkind == "valid" or (1, vy, vz) < (1, 2, 0)
    if readable_before:
        f = nixio.File(PATH, "r")
        before, _ = _picture(f)
        f.close()
        if before != expected:
            return False
    fakeh5.crash_at(crash)
    ok1 = _upgrade(up)
    hit = fakeh5.CRASH["hit"]
    fakeh5.crash_at(None)
    if hit:
        if ok1:
            return False
        # still recognised as old: header untouched, the upgrade is still pending, writing refused
        if tuple(store.root.attrs["version"]) != (1, vy, vz):
            return False
        tasks = up.collect_tasks(PATH)[0]
        if not tasks or not (tasks[-1].__doc__ or "").startswith("Update the file format version"):
            return False
        try:
            nixio.File(PATH, "a").close()
            return False
        except (RuntimeError, nixio.exceptions.InvalidFile):
            pass
        if not _upgrade(up):
            return False
    elif not ok1:
        return False
    # the result: same as an uninterrupted run
    if tuple(store.root.attrs["version"]) != lib:
        return False
    if up.collect_tasks(PATH)[0]:
        return False
    if not _raw_ok(fakeh5.MODULE, PATH, ndims):
        return False
    snap = fakeh5.snapshot(store)
    f = nixio.File(PATH, "a")                 # openable for writing
    after, extras = _picture(f, _genuine(pset))
    fid = f.id
    f.close()
    if after != expected:
        return False
    if not _extras_ok(pset, extras, old_props):
        return False
    if idkind == "valid":
        if fid != VALID_ID:
            return False
    elif not nixio.util.is_uuid(fid):
        return False
    # upgrading an up-to-date file changes nothing
    if not _upgrade(up):
        return False
    return fakeh5.snapshot(store) == snap and not fakeh5.open_handles(PATH)


# ---------------------------------------------------------------------------
# 2. a file that is not older than the library is not touched
# ---------------------------------------------------------------------------
def _ob_up_to_date(vi: int, nd: int, idk: int) -> bool:
    """
    pre: 0 <= vi < 5
    pre: 0 <= nd <= 2
    pre: 0 <= idk < 3
    post: __return__
    """
    from nixio.cmd import upgrade as up
    lib = _lib_version()
    v = _pick(NEW_VERSIONS, vi)
    vx, vy, vz = lib if v is None else v
    assume((vx, vy, vz) >= lib)
    ndims = _pick([0, 1, 2], nd)
    idkind = _pick(["valid", "invalid", "missing"], idk)
    nixfake.begin()
    with untraced():
        # even with leftovers of the old format: the version decides
        _build(fakeh5.MODULE, PATH, _UPSETS[PART], ndims, (1, 1, 0), idkind, PART % 2 == 1)
    store = fakeh5.FS[PATH]
    store.root.attrs["version"] = (vx, vy, vz)
    snap = fakeh5.snapshot(store)
    del fakeh5.OPEN_LOG[:]
    tasks = up.collect_tasks(PATH)[0]
    if tasks:
        return False
    if not _upgrade(up):
        return False
    if any(m != "r" for _, _, m in fakeh5.OPEN_LOG):
        return False
    return fakeh5.snapshot(store) == snap


_UPSETS = PSETS[:4]


def validate():
    return {"fakeh5_vs_h5py": fakeh5.validate_against_h5py()}


# ---------------------------------------------------------------------------
# real-stack replay: the same scenario on real h5py, the interruption injected at the
# same writable open
# ---------------------------------------------------------------------------
class _CrashingH5:
    """stands in for the `h5py` global of nixio.cmd.upgrade on the real stack"""

    def __init__(self, real, at):
        self._real, self.at, self.count, self.hit = real, at, 0, False

    def __getattr__(self, name):
        return getattr(self._real, name)

    def File(self, name, mode="r", **kw):
        if mode != "r":
            self.count += 1
            if self.at is not None and self.count == self.at:
                self.hit = True
                raise fakeh5.CrashInjected("injected interruption")
        return self._real.File(name, mode=mode, **kw)


def _replay_interrupt(args):
    import os
    import shutil
    import tempfile
    import h5py
    import numpy as np
    import nixio
    from nixio.cmd import upgrade as up
    nixfake.uninstall()
    global PATH
    lib = _lib_version()
    _, vy, vz = OLD_VERSIONS[args["vi"]]
    pset = [(sp, NAMES[args["nm"]] if n == "NM" else n, k, rows, u, d) for sp, n, k, rows, u, d in PSETS[PART]]
    ndims = [0, 1, 2][args["nd"]]
    idkind = ["valid", "invalid", "missing"][args["idk"]]
    old_props = (1, vy, vz) < (1, 1, 1)
    tmp = tempfile.mkdtemp(prefix="vf_c18_")
    saved_path = PATH
    detail = {}
    try:
        PATH = os.path.join(tmp, "old.nix")
        _build(h5py, PATH, pset, ndims, np.array((1, vy, vz), dtype=np.int64), idkind, old_props)
        expected = _expected(pset, ndims)
        bad = []
        if idkind == "valid" or (1, vy, vz) < (1, 2, 0):
            f = nixio.File(PATH, "r")
            before, _ = _picture(f)
            f.close()
            if before != expected:
                bad.append("before-picture differs")
        shim = _CrashingH5(h5py, args["crash"])
        up.h5py = shim
        try:
            ok1 = _upgrade(up)
            shim.at = None
            detail["interrupted"] = shim.hit
            if shim.hit:
                with h5py.File(PATH, "r") as h:
                    if tuple(int(x) for x in h.attrs["version"]) != (1, vy, vz):
                        bad.append("version raised before the interruption")
                if ok1:
                    bad.append("interrupted run reported success")
                if not _upgrade(up):
                    bad.append("re-run failed")
            elif not ok1:
                bad.append("uninterrupted run failed")
        finally:
            up.h5py = h5py
        try:
            f = nixio.File(PATH, "a")
            after, extras = _picture(f, _genuine(pset))
            fid = f.id
            f.close()
            if after != expected:
                bad.append("after-picture differs: %r" % sorted(
                    k for k in set(after) | set(expected) if after.get(k) != expected.get(k)))
            if not _extras_ok(pset, extras, old_props):
                bad.append("extras not retrievable / unexpected properties: %r" % (extras,))
            if not nixio.util.is_uuid(fid) or (idkind == "valid" and fid != VALID_ID):
                bad.append("file id")
        except Exception as e:  # noqa
            bad.append("upgraded file cannot be opened / read: %r" % (e,))
        if up.collect_tasks(PATH)[0]:
            bad.append("tasks left")
        if not _raw_ok(h5py, PATH, ndims):
            bad.append("old-format storage left")
        detail["problems"] = bad
        return bool(bad), detail
    finally:
        PATH = saved_path
        shutil.rmtree(tmp, ignore_errors=True)


def _replay_up_to_date(args):
    import os
    import shutil
    import tempfile
    import h5py
    import numpy as np
    from nixio.cmd import upgrade as up
    nixfake.uninstall()
    global PATH
    v = NEW_VERSIONS[args["vi"]] or _lib_version()
    tmp = tempfile.mkdtemp(prefix="vf_c18_")
    saved_path = PATH
    try:
        PATH = os.path.join(tmp, "new.nix")
        _build(h5py, PATH, _UPSETS[PART], [0, 1, 2][args["nd"]], np.array(v, dtype=np.int64),
               ["valid", "invalid", "missing"][args["idk"]], PART % 2 == 1)
        before = open(PATH, "rb").read()
        ok = _upgrade(up)
        same = open(PATH, "rb").read() == before
        return (not ok) or (not same), {"bytes_unchanged": same, "returned": ok}
    finally:
        PATH = saved_path
        shutil.rmtree(tmp, ignore_errors=True)


_U = "nixio.cmd.upgrade."
OBLIGATIONS = [
    Ob("interrupted_between_steps_then_rerun", _ob_interrupt, timeout=900,
       partition_by_tier={"quick": [0, 1, 2, 3, 4], "thorough": list(range(len(PSETS)))},
       functions=[_U + "file_upgrade", _U + "collect_tasks", _U + "process_tasks", _U + "add_file_id",
                  _U + "update_property_values", _U + "update_alias_range_dimension",
                  _U + "update_format_version", _U + "create_property", _U + "create_h5group",
                  "nixio.file.File.__init__", "nixio.property.Property.values",
                  "nixio.dimensions.RangeDimension.ticks"],
       replay=_replay_interrupt,
       outside="old-format files built from 5 (quick) / 7 (thorough) property sets (0-4 properties of int / float / text / bool, "
               "uniform, mixed and absent per-value extras, nested sections, an empty property) and 0-2 "
               "alias range dimensions; 5 format versions older than the library; interruptions INSIDE a "
               "conversion step and what libhdf5 leaves on disk then; two upgrade processes at once"),
    Ob("up_to_date_file_untouched", _ob_up_to_date, timeout=600,
       partition=list(range(len(_UPSETS))),
       functions=[_U + "file_upgrade", _U + "collect_tasks", _U + "get_file_version"],
       replay=_replay_up_to_date,
       outside="the library's own version and 4 newer ones; 'untouched' = no open with "
               "write intent and an identical object store (bytes on disk in the real-stack replay)"),
]

ASSUMPTIONS = ["an interruption between two conversion steps leaves what the completed steps wrote "
               "(every step closes the file, libhdf5 flushes on close)",
               "fakeh5 incl. compound datasets and the high-level File (validated against h5py by the "
               "differential script each run)"]
