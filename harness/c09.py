"""C09 - SI unit recognition and scaling are exact and consistent.

Real code executed: nixio.util.units.{sanitizer, is_si, is_atomic, is_compound,
split, scalable, scaling}.  The prefix / unit tables and the factor map are read
from the module at run time.  Table indices are symbolic selectors: CrossHair/z3
decide which index values reach which path, the strings handed to `re` are
concrete per path (a symbolic string inside the regex engine does not finish,
see DESIGN.md), so every obligation is decided path-by-path over the complete
finite index domain stated in its bounds.  The obligation is partitioned by one
concrete outer index (PART) so that the parts run in parallel.
"""
from vf.ob import Ob, assume

PROPERTY = "C09"
PART = None

POWERS = ["", "^1", "^2", "^3", "^-1", "^-2", "^-3"]


def _tables():
    from nixio.util import units as U
    pre = U.PREFIXES.strip("()").split("|")
    uni = U.UNITS.strip("()").split("|")
    return [""] + pre, uni, dict(U.PREFIX_FACTORS)


PREFIXES, UNITS, FACTORS = _tables()
NP, NU = len(PREFIXES), len(UNITS)


def setup():
    from vf import models
    models.install_quiet_format()   # concrete str.format runs untraced (11 ms -> 10 us)


def _pick(tbl, i):
    for k in range(len(tbl)):
        if i == k:
            return tbl[k]
    assume(False)


def _factor(prefix):
    return 1.0 if prefix == "" else FACTORS[prefix]


def _close(a, b, rel):
    return abs(a - b) <= rel * max(abs(a), abs(b))


# ---------------------------------------------------------------------------
# 1. every prefix-unit-power combination is atomic SI and is split exactly
#    PART = unit index
# ---------------------------------------------------------------------------
def _ob_split(pi: int, wi: int) -> bool:
    """
    pre: 0 <= pi < NP
    pre: 0 <= wi < 7
    post: __return__
    """
    from nixio.util import units as U
    unit = UNITS[PART]
    prefix = _pick(PREFIXES, pi)
    power = _pick(POWERS, wi)
    s = prefix + unit + power
    if not U.is_atomic(s):
        return False
    if not U.is_si(s):
        return False
    if U.is_compound(s):
        return False
    return tuple(U.split(s)) == (prefix, unit, power[1:])


# ---------------------------------------------------------------------------
# 2. scaling = (F_a / F_b) ** power, inverts
#    PART = (unit index, prefix index a)
# ---------------------------------------------------------------------------
def _ob_scaling(bi: int, wi: int) -> bool:
    """
    pre: 0 <= bi < NP
    pre: 0 <= wi < 7
    post: __return__
    """
    from nixio.util import units as U
    ui, ai = PART
    unit = UNITS[ui]
    pa = PREFIXES[ai]
    pb = _pick(PREFIXES, bi)
    power = _pick(POWERS, wi)
    a = pa + unit + power
    b = pb + unit + power
    if not U.scalable([a, b], [b, a]):
        return False
    p = int(power[1:]) if power else 1
    want = (_factor(pa) / _factor(pb)) ** p
    ab = U.scaling(a, b)
    ba = U.scaling(b, a)
    if not _close(ab, want, 1e-12):
        return False
    return _close(ab * ba, 1.0, 1e-12)


# ---------------------------------------------------------------------------
# 2a. the conversion factor does not depend on what was converted before: an earlier conversion
#     between the same prefixes (either direction) at another power precedes the one under test.
#     PART = (unit index, prefix index a)
# ---------------------------------------------------------------------------
def _ob_scaling_history(bi: int, wi: int, hw: int, swapped: bool) -> bool:
    """
    pre: 0 <= bi < NP
    pre: 0 <= wi < 7
    pre: 0 <= hw < 7
    post: __return__
    """
    from nixio.util import units as U
    ui, ai = PART
    unit = UNITS[ui]
    pa = PREFIXES[ai]
    pb = _pick(PREFIXES, bi)
    hpower = _pick(POWERS, hw)
    if swapped:
        U.scaling(pb + unit + hpower, pa + unit + hpower)
    else:
        U.scaling(pa + unit + hpower, pb + unit + hpower)
    power = _pick(POWERS, wi)
    p = int(power[1:]) if power else 1
    want = (_factor(pa) / _factor(pb)) ** p
    return _close(U.scaling(pa + unit + power, pb + unit + power), want, 1e-12)


# ---------------------------------------------------------------------------
# 2b. composition through a third prefix.  PART = (unit index, a index, b index)
# ---------------------------------------------------------------------------
def _ob_compose(ci: int, wi: int) -> bool:
    """
    pre: 0 <= ci < NP
    pre: 0 <= wi < 7
    post: __return__
    """
    from nixio.util import units as U
    ui, ai, bi = PART
    unit = UNITS[ui]
    power = _pick(POWERS, wi)
    a = PREFIXES[ai] + unit + power
    b = PREFIXES[bi] + unit + power
    c = _pick(PREFIXES, ci) + unit + power
    return _close(U.scaling(a, b) * U.scaling(b, c), U.scaling(a, c), 1e-9)


# ---------------------------------------------------------------------------
# 3. scalable <=> same base unit and same power; otherwise scaling refuses
#    PART = unit index a
# ---------------------------------------------------------------------------
_P3 = ["", "m", "da"]
_W3 = ["", "^2", "^-1"]


def _ob_scalable_iff(ub: int, pa: int, pb: int, wa: int, wb: int) -> bool:
    """
    pre: 0 <= ub < NU
    pre: 0 <= pa < 3 and 0 <= pb < 3 and 0 <= wa < 3 and 0 <= wb < 3
    post: __return__
    """
    from nixio.util import units as U
    from nixio.exceptions import InvalidUnit
    ua = PART
    unit_b = _pick(UNITS, ub)
    power_a = _pick(_W3, wa)
    power_b = _pick(_W3, wb)
    a = _pick(_P3, pa) + UNITS[ua] + power_a
    b = _pick(_P3, pb) + unit_b + power_b
    want = (UNITS[ua] == unit_b) and (power_a == power_b)
    got = True if U.scalable(a, b) else False
    if got != want:
        return False
    try:
        U.scaling(a, b)
        refused = False
    except InvalidUnit:
        refused = True
    return refused == (not want)


# ---------------------------------------------------------------------------
# 4. products and quotients of 2..4 atomic units are compound SI
#    PART = (count, unit-chunk index)
# ---------------------------------------------------------------------------
_MENU = ["V", "ms^-1", "kmol^2", "Sv"]
_P4 = ["", "m", "k"]
_W4 = ["", "^-2"]


def _ob_compound(u0: int, p0: int, w0: int, m1: int, m2: int, m3: int,
                 d1: bool, d2: bool, d3: bool) -> bool:
    """
    pre: 0 <= p0 < 3 and 0 <= w0 < 2
    post: __return__
    """
    from nixio.util import units as U
    count, chunk = PART
    lo, hi = chunk * 5, min(NU, chunk * 5 + 5)
    assume(lo <= u0 < hi)
    s = _pick(_P4, p0) + _pick(UNITS, u0) + _pick(_W4, w0)
    ms, ds = (m1, m2, m3), (d1, d2, d3)
    for j in range(count - 1):
        assume(0 <= ms[j] < len(_MENU))
        s = s + ("/" if ds[j] else "*") + _pick(_MENU, ms[j])
    if not U.is_compound(s):
        return False
    if not U.is_si(s):
        return False
    if U.is_atomic(s):
        return False
    return True


# ---------------------------------------------------------------------------
# 5. sanitizer: idempotent, removes blanks, maps both micro signs to 'u'
#    PART = (length, index of first character)
# ---------------------------------------------------------------------------
_ALPHA = ["m", "u", "µ", "μ", " ", "V"]


def _ob_sanitizer(c1: int, c2: int, c3: int, c4: int, c5: int) -> bool:
    """
    post: __return__
    """
    from nixio.util import units as U
    n, first = PART
    cs = (c1, c2, c3, c4, c5)
    s = _ALPHA[first] if n >= 1 else ""
    for j in range(n - 1):
        assume(0 <= cs[j] < len(_ALPHA))
        s = s + _pick(_ALPHA, cs[j])
    t = U.sanitizer(s)
    if U.sanitizer(t) != t:
        return False
    if " " in t or "µ" in t or "μ" in t:
        return False
    # clean input (nothing to remove or map, no "mu") is returned unchanged
    if " " not in s and "µ" not in s and "μ" not in s and "mu" not in s:
        return t == s
    return True


def validate():
    """The tables the obligations quantify over are the ones in the tree."""
    from nixio.util import units as U
    assert len(PREFIXES) == len(U.PREFIX_FACTORS) + 1, "prefix table / factor map differ"
    for p in PREFIXES[1:]:
        assert p in U.PREFIX_FACTORS, p
    assert NU >= 25 and NP >= 21
    # the repo's own test literals through the same helper code
    assert tuple(U.split("mV^2")) == ("m", "V", "2")
    return {"prefixes": NP, "units": NU, "powers": len(POWERS)}


_U = "nixio.util.units."
_QUICK_UNITS = [UNITS.index(u) for u in ("V", "m", "mol", "S", "Sv", "W", "Wb", "Hz", "l") if u in UNITS]
_ALL_UNITS = list(range(NU))


def _san_parts(maxlen):
    parts = [(0, 0)]
    for n in range(1, maxlen + 1):
        for f in range(len(_ALPHA)):
            parts.append((n, f))
    return parts


OBLIGATIONS = [
    Ob("split_exact", _ob_split, timeout=120, partition=_ALL_UNITS,
       functions=[_U + "is_atomic", _U + "is_si", _U + "is_compound", _U + "split"],
       outside="powers outside -3..3 and explicit '+' signs; non-unit strings"),
    Ob("scaling_ratio", _ob_scaling, timeout=150,
       partition_by_tier={"quick": [(u, a) for u in _QUICK_UNITS[:4] for a in range(NP)],
                          "thorough": [(u, a) for u in _ALL_UNITS for a in range(NP)]},
       functions=[_U + "scalable", _U + "scaling", _U + "split"],
       outside="quick tier: 4 units incl. the prefix/unit collisions; thorough: all units"),
    Ob("scaling_history_independent", _ob_scaling_history, timeout=600,
       partition_by_tier={"quick": [(u, a) for u in _QUICK_UNITS[:2] for a in range(0, NP, 3)],
                          "thorough": [(u, a) for u in _QUICK_UNITS[:4] for a in range(NP)]},
       functions=[_U + "scaling", _U + "split"],
       outside="the history is one earlier conversion between the same two prefixes (either direction) "
               "of the same base unit at any power; 2 units x 7 prefixes (quick) / 4 units x 21 (thorough)"),
    Ob("scaling_composes", _ob_compose, timeout=150, tiers=("thorough",),
       partition=[(u, a, b) for u in _QUICK_UNITS[:3] for a in range(0, NP, 4) for b in range(1, NP, 5)],
       functions=[_U + "scaling"],
       outside="composition is implied by the ratio formula of scaling_ratio (each factor exact to "
               "1e-12); checked directly only for 3 units x 6 x 4 prefix pairs x all third prefixes"),
    Ob("scalable_iff_same_unit_power", _ob_scalable_iff, timeout=400,
       partition_by_tier={"quick": _QUICK_UNITS[:6], "thorough": _ALL_UNITS},
       functions=[_U + "scalable", _U + "scaling"],
       outside="prefixes restricted to {none, m, da}, powers to {none, 2, -1}; mixed spellings "
               "(m vs m^1) are not asserted"),
    Ob("compound_recognised", _ob_compound, timeout=400,
       partition_by_tier={"quick": [(2, c) for c in range((NU + 4) // 5)],
                          "thorough": [(k, c) for k in (2, 3) for c in range((NU + 4) // 5)]},
       functions=[_U + "is_compound", _U + "is_si", _U + "is_atomic"],
       outside="only recognition is asserted (the statement does not demand rejection of "
               "non-units); atoms after the first come from a 4-entry menu; compounds of 2 (quick) / "
               "2-3 (thorough) atoms"),
    Ob("sanitizer_idempotent", _ob_sanitizer, timeout=300,
       partition_by_tier={"quick": _san_parts(4), "thorough": _san_parts(6)},
       functions=[_U + "sanitizer"],
       outside="alphabet {m, u, micro sign, greek mu, blank, V}; length <= 4 (quick) / 6 (thorough)"),
]
