"""C14 - Validation reports every catalogued inconsistency, nothing on consistent files.

Real code executed symbolically on fakeh5: nixio.validator.{check_file,
check_block, check_group, check_data_array, check_range_dimension,
check_sampled_dimension, check_set_dimension, check_tag, check_multi_tag,
check_feature, check_section, check_property, check_source, check_entity,
get_dim_units, tag_units_match_refs_units} and nixio.util.units (is_si,
is_atomic, scalable) underneath.

A consistent base file is built through the public API; inconsistencies are
injected by symbolic recipes (selectors over descriptor kinds, tick / label
counts and order, interval classes, unit tables, position / extent / unit
lengths, deleted attributes).  The expected error multiset per object is computed
from the recipe by an independent specification; File.validate()['errors'] must
equal it object by object - empty for consistent recipes, nothing attributed to
untouched objects.
"""
from vf.ob import Ob, assume, untraced
from vf import models, fakeh5, nixfake

PROPERTY = "C14"
PART = None
PATH = "/v/c14.nix"

UNITS = [None, "ms", "foo", "mV/Hz", "", "kV^2"]       # atomic SI: ms, kV^2


def setup():
    models.install_quiet_format()
    nixfake.install()


def _pick(tbl, i):
    for k in range(len(tbl)):
        if i == k:
            return tbl[k]
    assume(False)


def _E():
    from nixio.validator import ValidationError
    return ValidationError


def _atomic(u):
    return u in ("ms", "kV^2", "s", "mV")


def _si(u):
    return _atomic(u) or u == "mV/Hz"


def _errors(f):
    """{entity id: sorted error list} from the real validator"""
    res = f.validate()
    out = {}
    for obj, errs in res["errors"].items():
        key = getattr(obj, "id", None) or "file"
        out[key] = sorted(errs)
    return out


def _base():
    with untraced():
        return _base_concrete()


def _base_concrete():
    import nixio
    nixfake.begin()
    f = nixio.File(PATH, "w")
    # an earlier, consistent block whose arrays carry the SAME NAMES as the ones the obligations
    # create in "blk" but other dimension descriptors (names are unique per block only)
    import numpy as np
    first = f.create_block("first", "t")
    for nm in ("ref", "ref2"):
        a0 = first.create_data_array(nm, "t", data=[1.0, 2.0])
        a0.append_sampled_dimension(1.0, unit="mV")
    t0 = first.create_tag("tg", "t", [0.0])
    t0.units = ["mV"]
    t0.references.append(first.data_arrays["ref"])
    p0 = first.create_data_array("pos", "t", data=np.zeros((2, 1)))
    p0.append_set_dimension()
    p0.append_set_dimension()
    m0 = first.create_multi_tag("mt", "t", positions=p0)
    m0.units = ["mV"]
    m0.references.append(first.data_arrays["ref2"])
    blk = f.create_block("blk", "t")
    ok = blk.create_data_array("ok", "t", data=[1.0, 2.0, 3.0])
    ok.append_sampled_dimension(0.5, unit="ms")
    grp = blk.create_group("grp", "t")
    grp.data_arrays.append(ok)
    src = blk.create_source("src", "t")
    src.create_source("child", "t")
    sec = f.create_section("sec", "t")
    sec.create_property("p", [1])
    sec.create_section("sub", "t")
    return f, blk, ok


# ---------------------------------------------------------------------------
# 1. dimension descriptors of one array      PART = (shape, injected kind)
# ---------------------------------------------------------------------------
def _raw_dim(da, index, kind, **kw):
    """write a descriptor straight into the backend (also invalid ones)"""
    g = da._h5group.open_group("dimensions", True).open_group(str(index), True)
    g.set_attr("dimension_type", kind)
    for k, v in kw.items():
        if k in ("ticks", "labels"):
            if v:
                from nixio import DataType
                g.write_data(k, list(v), dtype=(DataType.Double if k == "ticks" else nixio_str()))
        elif v is not None:
            g.set_attr(k, v)


def nixio_str():
    from nixio import util
    return util.vlen_str_dtype


def _ob_dims(n_extra: int, j: int, a: int, b: int) -> bool:
    """
    pre: -1 <= n_extra <= 1
    pre: 0 <= j < 3
    pre: 0 <= a < 6 and 0 <= b < 6
    post: __return__
    """
    E = _E()
    shape, kind, nx = PART
    assume(n_extra == nx)
    rank = len(shape)
    f, blk, ok = _base()
    import numpy as np
    arr = blk.create_data_array("arr", "t", data=np.zeros(shape))
    n = rank + n_extra
    assume(n >= 1 and j < n)
    want = []
    if n != rank:
        want.append(E.DimensionMismatch)
    for idx in range(1, n + 1):
        datalen = shape[idx - 1] if idx <= rank else None
        if idx - 1 != j:
            _raw_dim(arr, idx, "set")                     # a valid descriptor (no labels)
            continue
        if kind == "set":
            count = _pick([0, "len", "len+1", 1], a)
            L = 0 if count == 0 else (1 if count == 1 else None)
            if datalen is None:
                L = 2 if L is None else L
            elif L is None:
                L = datalen if count == "len" else datalen + 1
            _raw_dim(arr, idx, "set", labels=["l%d" % i for i in range(L)])
            if datalen is not None and L > 0 and L != datalen:
                want.append(E.SetDimLabelsMismatch.format(idx))
        elif kind == "sample":
            interval = _pick([1.0, 0.0, -1.0, None, 0.25, 2], a)
            unit = _pick(UNITS, b)
            _raw_dim(arr, idx, "sample", sampling_interval=interval, unit=unit)
            if datalen is not None:
                if interval is None or interval == 0:
                    want.append(E.NoSamplingInterval.format(idx))
                elif interval < 0:
                    want.append(E.InvalidSamplingInterval.format(idx))
                if unit and not _atomic(unit):
                    want.append(E.InvalidDimensionUnit.format(idx))
        else:
            d = datalen if datalen is not None else 2
            tk = _pick(["sorted", "short", "unsorted", "equal", "none", "long"], a)
            ticks = {"sorted": [float(i) for i in range(d)],
                     "short": [float(i) for i in range(d - 1)],
                     "long": [float(i) for i in range(d + 1)],
                     "unsorted": [float(d - i) for i in range(d)],
                     "equal": [1.0] * d, "none": []}[tk]
            unit = _pick(UNITS, b)
            _raw_dim(arr, idx, "range", ticks=ticks, unit=unit)
            if datalen is not None:
                if len(ticks) == 0:
                    want.append(E.NoTicks.format(idx))
                    want.append("OPTIONAL:" + E.RangeDimTicksMismatch.format(idx))
                else:
                    if len(ticks) != datalen:
                        want.append(E.RangeDimTicksMismatch.format(idx))
                    if not all(x < y for x, y in zip(ticks[:-1], ticks[1:])):
                        want.append(E.UnsortedTicks.format(idx))
                if unit and not _atomic(unit):
                    want.append(E.InvalidDimensionUnit.format(idx))
    if kind == "set":
        # the array under test is also REFERENCED: a tag and a multi-tag whose position / extent have one entry
        # per DATA dimension and one (empty) unit per descriptor are consistent whatever the descriptors are,
        # so nothing may be attributed to them
        tg = blk.create_tag("on-arr", "t", [0.0] * rank)
        tg.extent = [1.0] * rank
        tg._h5group.write_data("units", [""] * n, nixio_dt_string())
        tg.references.append(arr)
        pos = blk.create_data_array("on-arr-pos", "t", data=np.zeros((2, rank)))
        pos.append_set_dimension()
        pos.append_set_dimension()
        mt = blk.create_multi_tag("on-arr-mt", "t", positions=pos)
        mt._h5group.write_data("units", [""] * n, nixio_dt_string())
        mt.references.append(arr)
    got = _errors(f)
    return _same_report(got, {arr.id: want})


def _same_report(got, want):
    """object-by-object equality of error multisets; entries marked OPTIONAL may
    or may not be reported; objects with an empty expectation must be absent"""
    want = {k: v for k, v in want.items() if [e for e in v if not e.startswith("OPTIONAL:")] or
            any(e.startswith("OPTIONAL:") for e in v)}
    for k in got:
        if k not in want:
            return False
    for k, exp in want.items():
        must = sorted(e for e in exp if not e.startswith("OPTIONAL:"))
        opt = [e[len("OPTIONAL:"):] for e in exp if e.startswith("OPTIONAL:")]
        have = list(got.get(k, []))
        for e in must:
            if e not in have:
                return False
            have.remove(e)
        for e in have:
            if e not in opt:
                return False
            opt.remove(e)
    return True


# ---------------------------------------------------------------------------
# 2. missing type / name / date (/ id) on every entity kind   PART = entity kind
# ---------------------------------------------------------------------------
def _ob_entity_attrs(which: int) -> bool:
    """
    pre: 0 <= which < 5
    post: __return__
    """
    import nixio
    E = _E()
    kind = PART
    f, blk, ok = _base()
    tag = blk.create_tag("tg", "t", [0.5])
    tag.units = ["ms"]
    tag.references.append(ok)
    mt = blk.create_multi_tag("mt", "t", positions=blk.create_data_array("pos", "t", data=[0.5, 1.0]))
    blk.data_arrays["pos"].append_set_dimension()
    mt.units = ["ms"]
    mt.references.append(ok)
    ent = {"block": blk, "group": blk.groups[0], "data_array": ok, "tag": tag, "multi_tag": mt,
           "source": blk.sources[0], "subsource": blk.sources[0].sources[0],
           "section": f.sections[0], "subsection": f.sections[0].sections[0]}[kind]
    attr = _pick([None, "type", "name", "created_at", "entity_id"], which)
    want = {}
    if attr is not None:
        ent._h5group.set_attr(attr, None)
        want[ent.id if attr != "entity_id" else "MISSING-ID"] = [
            {"type": E.NoType, "name": E.NoName, "created_at": E.NoDate, "entity_id": E.NoID}[attr]]
    got = _errors(f)
    if attr == "entity_id":
        # the object without id must be the only one reported, with NoID
        return len(got) == 1 and list(got.values())[0] == [E.NoID]
    return _same_report(got, want)


# ---------------------------------------------------------------------------
# 3. tags      PART = rank of the referenced array
# ---------------------------------------------------------------------------
TUNITS = ["ms", "s", "mV", "foo", ""]
DUNITS = [None, "ms", "mV"]


def _scalable(tu, ru):
    base = {"ms": "s", "s": "s", "mV": "V", "kV^2": "V^2"}   # 'foo' is not a unit: never convertible
    return tu in base and ru in base and base[tu] == base[ru]


def _tag_expect(E, multi, rank, npos, next_, units, dunits, has_ref, d2units=None):
    want = []
    if npos == 0:
        want.append(E.NoPositions if multi else E.NoPosition)
    if has_ref:
        if npos != rank:
            want.append(E.PositionsDimensionMismatch if multi else E.PositionDimensionMismatch)
        if next_ > 0:
            if next_ != npos:
                want.append(E.PositionsExtentsMismatch if multi else E.PositionExtentMismatch)
            if next_ != rank:
                want.append(E.ExtentsDimensionMismatch if multi else E.ExtentDimensionMismatch)
        refs = [dunits] + ([d2units] if d2units is not None else [])
        rus = [[d if d else "" for d in du] for du in refs]
        if any(len(ru) != len(units) for ru in rus):
            want.append(E.ReferenceUnitsMismatch)
        incompatible = False
        for ru in rus:
            for tu, r in zip(units, ru):
                if tu == "" and r == "":
                    continue
                if not _scalable(tu, r):
                    incompatible = True
        if incompatible:
            want.append(E.ReferenceUnitsIncompatible)
    if any(u and not (u in ("ms", "s", "mV", "kV^2")) for u in units):
        want.append(E.InvalidUnit)            # tag units must be SI (compound allowed by is_si)
    return want


KNOBS = ["npos", "next", "nun", "unit", "dimunit", "noref", "rows", "ref2unit", "bothunit"]


def _recipe(rank, budget, multi, i1, v1, s1, i2, v2, s2):
    """consistent base + at most `budget` injections -> recipe dict"""
    if isinstance(budget, tuple):          # thorough: (2, first knob) - partitioned by the first knob
        budget, first = budget
        assume(i1 == first)
    r = {"npos": rank, "next": rank, "nun": rank, "slot": 0, "uv": 0, "dslot": 0, "dv": 1,
         "has_ref": True, "rows": False, "d2slot": 0, "d2v": 1}
    inj = [(i1, v1, s1)]
    if budget >= 2:
        assume(i1 < i2)               # two DIFFERENT knobs, ordered
        inj.append((i2, v2, s2))
    for i, v, sl in inj:
        knob = _pick(["none"] + KNOBS, i)
        if knob == "none":
            continue
        if knob in ("npos", "next", "nun"):
            assume(0 <= v <= 3 and (knob != "npos" or not multi or v >= 1))
            r[knob] = v
        elif knob == "unit":
            assume(0 <= v < 5 and 0 <= sl < 3)
            r["uv"], r["slot"] = v, sl
        elif knob == "dimunit":
            assume(0 <= v < 3 and 0 <= sl < rank)
            r["dv"], r["dslot"] = v, sl
        elif knob == "ref2unit":
            assume(0 <= v < 3 and 0 <= sl < rank)
            r["d2v"], r["d2slot"] = v, sl
        elif knob == "bothunit":
            # the SAME string as tag unit and as unit of the matching dimension of both references
            assume(0 <= v < 3)
            r["both"] = (_pick(["foo", "kV^2", "s"], v), 0)        # always the first slot / dimension
        elif knob == "noref":
            r["has_ref"] = False
        else:
            assume(multi)
            r["rows"] = True
    assume(r["slot"] < max(r["nun"], 1))
    return r


def _ob_tag(i1: int, v1: int, s1: int, i2: int, v2: int, s2: int) -> bool:
    """
    pre: 0 <= i1 < 10 and 0 <= i2 < 10
    post: __return__
    """
    import numpy as np
    E = _E()
    rank, budget = PART
    r = _recipe(rank, budget, False, i1, v1, s1, i2, v2, s2)
    npos, next_, nun, has_ref = r["npos"], r["next"], r["nun"], r["has_ref"]
    f, blk, ok = _base()
    ref = blk.create_data_array("ref", "t", data=np.zeros((3, 2)[:rank]))
    dunits = ["ms"] * rank
    dunits[r["dslot"]] = _pick(DUNITS, r["dv"])
    for d in range(rank):
        ref.append_sampled_dimension(1.0, unit=dunits[d])
    units = ["ms"] * nun
    if nun > 0:
        units[r["slot"]] = _pick(TUNITS, r["uv"])
    both = r.get("both")
    if both is not None and nun > both[1]:
        units[both[1]] = both[0]
        dunits[both[1]] = both[0]
        ref.dimensions[both[1]].unit = both[0]
    tag = blk.create_tag("tg", "t", [0.5] * max(npos, 1))
    if npos == 0:
        tag.position = None
    if next_ > 0:
        tag.extent = [1.0] * next_
    if nun > 0:
        tag._h5group.write_data("units", list(units), nixio_dt_string())
    d2units = ["ms"] * rank
    d2units[r["d2slot"]] = _pick(DUNITS, r["d2v"])
    if both is not None and nun > both[1]:
        d2units[both[1]] = both[0]
    if has_ref:
        ref2 = blk.create_data_array("ref2", "t", data=np.zeros((3, 2)[:rank]))
        for d in range(rank):
            ref2.append_sampled_dimension(1.0, unit=d2units[d])
        tag.references.append(ref)
        tag.references.append(ref2)
    want = _tag_expect(E, False, rank, npos, next_, units, dunits, has_ref, d2units)
    bad_dims = {}
    if both is not None and nun > both[1] and not _atomic(both[0]):
        # the arrays themselves are reported for the non-atomic dimension unit
        bad_dims = {ref.id: [E.InvalidDimensionUnit.format(both[1] + 1)]}
        if has_ref:
            bad_dims[ref2.id] = [E.InvalidDimensionUnit.format(both[1] + 1)]
    exp = dict(bad_dims)
    exp[tag.id] = want
    if not _same_report(_errors(f), exp):
        return False
    # validating again after a change reflects the change (no state kept between validations)
    if has_ref and nun >= 1 and both is None:
        ref.dimensions[0].unit = "mV"
        dunits2 = list(dunits)
        dunits2[0] = "mV"
        want2 = _tag_expect(E, False, rank, npos, next_, units, dunits2, has_ref, d2units)
        return _same_report(_errors(f), {tag.id: want2})
    return True


def nixio_dt_string():
    from nixio import DataType
    return DataType.String


def _ob_multi_tag(i1: int, v1: int, s1: int, i2: int, v2: int, s2: int) -> bool:
    """
    pre: 0 <= i1 < 10 and 0 <= i2 < 10
    post: __return__
    """
    import numpy as np
    E = _E()
    rank, budget = PART
    r = _recipe(rank, budget, True, i1, v1, s1, i2, v2, s2)
    npos, next_, nun, has_ref, rows_differ = r["npos"], r["next"], r["nun"], r["has_ref"], r["rows"]
    assume(next_ > 0 or not rows_differ)
    f, blk, ok = _base()
    ref = blk.create_data_array("ref", "t", data=np.zeros((3, 2)[:rank]))
    dunits = ["ms"] * rank
    dunits[r["dslot"]] = _pick(DUNITS, r["dv"])
    for d in range(rank):
        ref.append_sampled_dimension(1.0, unit=dunits[d])
    units = ["ms"] * nun
    if nun > 0:
        units[r["slot"]] = _pick(TUNITS, r["uv"])
    both = r.get("both")
    if both is not None and nun > both[1]:
        units[both[1]] = both[0]
        dunits[both[1]] = both[0]
        ref.dimensions[both[1]].unit = both[0]
    pos = blk.create_data_array("pos", "t", data=np.zeros((2, npos)))
    pos.append_set_dimension()
    pos.append_set_dimension()
    mt = blk.create_multi_tag("mt", "t", positions=pos)
    if next_ > 0:
        ext = blk.create_data_array("ext", "t", data=np.zeros((3 if rows_differ else 2, next_)))
        ext.append_set_dimension()
        ext.append_set_dimension()
        mt.extents = ext
    if nun > 0:
        mt._h5group.write_data("units", list(units), nixio_dt_string())
    d2units = ["ms"] * rank
    d2units[r["d2slot"]] = _pick(DUNITS, r["d2v"])
    if both is not None and nun > both[1]:
        d2units[both[1]] = both[0]
    if has_ref:
        ref2 = blk.create_data_array("ref2", "t", data=np.zeros((3, 2)[:rank]))
        for d in range(rank):
            ref2.append_sampled_dimension(1.0, unit=d2units[d])
        mt.references.append(ref)
        mt.references.append(ref2)
    want = _tag_expect(E, True, rank, npos, next_, units, dunits, has_ref, d2units)
    if has_ref and next_ > 0 and rows_differ and next_ == npos:
        want.append(E.PositionsExtentsMismatch)       # shapes differ in the row count
    exp = {mt.id: want}
    if both is not None and nun > both[1] and not _atomic(both[0]):
        exp[ref.id] = [E.InvalidDimensionUnit.format(both[1] + 1)]
        if has_ref:
            exp[ref2.id] = [E.InvalidDimensionUnit.format(both[1] + 1)]
    return _same_report(_errors(f), exp)


def validate():
    # spec tables agree with the real units module on the table entries
    from nixio.util import units as U
    for u in UNITS + TUNITS + DUNITS:
        if u:
            assert bool(U.is_atomic(u)) == _atomic(u), u
            assert bool(U.is_si(u)) == _si(u), u
    for a in TUNITS:
        for b in DUNITS:
            if a and b:
                assert bool(U.scalable(a, b)) == _scalable(a, b), (a, b)
    return {"fakeh5_vs_h5py": fakeh5.validate_against_h5py()}


def _real(fn_name, args):
    import os
    import shutil
    import tempfile
    global PATH
    tmp = tempfile.mkdtemp(prefix="vf_c14_")
    fakeh5.uninstall()
    old = PATH
    PATH = os.path.join(tmp, "t.nix")
    try:
        try:
            ok = globals()[fn_name](**args)
        except Exception as e:  # noqa
            import traceback
            return True, {"raised_on_real_stack": traceback.format_exc()[-500:]}
        return (not ok), {"holds_on_real_stack": ok}
    finally:
        PATH = old
        fakeh5.install()
        shutil.rmtree(tmp, ignore_errors=True)


_V = "nixio.validator."
OBLIGATIONS = [
    Ob("dimension_descriptors", _ob_dims, timeout=900,
       partition=[(s, k, nx) for s in ((3,), (2, 3)) for k in ("set", "sample", "range")
                  for nx in (-1, 0, 1) if len(s) + nx >= 1],
       functions=[_V + "check_file", _V + "check_data_array", _V + "check_range_dimension",
                  _V + "check_sampled_dimension", _V + "check_entity"],
       replay=lambda a: _real("_ob_dims", a),
       outside="one injected descriptor per array (the others are valid set dimensions); ranks 1-2"),
    Ob("missing_entity_attributes", _ob_entity_attrs, timeout=600,
       partition=["block", "group", "data_array", "tag", "multi_tag", "source", "subsource", "section",
                  "subsection"],
       functions=[_V + "check_entity", _V + "check_file", _V + "check_tag", _V + "check_multi_tag",
                  _V + "check_section", _V + "check_source"],
       replay=lambda a: _real("_ob_entity_attrs", a)),
    Ob("tag_consistency", _ob_tag, timeout=900, timeout_by_tier={"thorough": 2700},
       partition_by_tier={"quick": [(1, 1), (2, 1)],
                          "thorough": [(r, (2, k)) for r in (1, 2) for k in list(range(0, 7)) + [8]]},
       functions=[_V + "check_tag", _V + "get_dim_units", _V + "tag_units_match_refs_units"],
       replay=lambda a: _real("_ob_tag", a),
       outside="quick: single injections, thorough: pairs; one reference; unit tables"),
    Ob("multi_tag_consistency", _ob_multi_tag, timeout=900, timeout_by_tier={"thorough": 2700},
       partition_by_tier={"quick": [(1, 1), (2, 1)],
                          "thorough": [(r, (2, k)) for r in (1, 2) for k in range(0, 8)]},
       functions=[_V + "check_multi_tag", _V + "get_dim_units", _V + "tag_units_match_refs_units"],
       replay=lambda a: _real("_ob_multi_tag", a)),
]

ASSUMPTIONS = ["the expected reports are computed from the injection recipe by an independent "
               "specification of the catalogue; 'RangeDimTicksMismatch' for a dimension without "
               "ticks is accepted but not required"]
