"""C01 - Array data is stored and returned exactly (type, shape, values).  PARTIAL.

Decided (the Python-side arithmetic and decisions of nixio, executed symbolically
on fakeh5): DataSet.append (shape validation, enlargement, hyperslab), the
compression inheritance file -> block -> array, create_data_array's shape / dtype
/ maxshape decisions, that index expressions and data are handed to the backend
unchanged (H5DataSet.write_data / read_data, DataArray._read_data's shape rule).

NOT decided - and said so in the manifest: that libhdf5 returns the stored
elements bit for bit for every element type, filter and after reopening.
"""
from vf.ob import Ob, assume, untraced
from vf import models, fakeh5, nixfake

PROPERTY = "C01"
PART = None
PATH = "/v/c01.nix"


class _Blob:
    """stands for a NumPy array of a given (symbolic) shape"""

    def __init__(self, shape):
        self.shape = tuple(shape)

    @property
    def size(self):
        n = 1
        for e in self.shape:
            n = n * e
        return n

    @property
    def ndim(self):
        return len(self.shape)


class _SetNp(models.NpShim):
    @staticmethod
    def ascontiguousarray(x, *a, **kw):
        if isinstance(x, _Blob):
            return x
        import numpy
        return numpy.ascontiguousarray(x, *a, **kw)


def setup():
    import nixio.data_set as S
    models.install_quiet_format()
    models.install_slice_model()
    nixfake.install()
    S.np = _SetNp()


def _pick(tbl, i):
    for k in range(len(tbl)):
        if i == k:
            return tbl[k]
    assume(False)


def _file(compression=None):
    import nixio
    with untraced():
        nixfake.begin()
        if compression is None:
            f = nixio.File(PATH, "w")
        else:
            f = nixio.File(PATH, "w", compression=compression)
    return f


# ---------------------------------------------------------------------------
# 1. append along any axis       PART = rank
# ---------------------------------------------------------------------------
def _ob_append(n0: int, n1: int, n2: int, n3: int, a0: int, a1: int, a2: int, a3: int,
               axis: int, drank: int) -> bool:
    """
    pre: n0 >= 0 and n1 >= 0 and n2 >= 0 and n3 >= 0
    pre: a0 >= 0 and a1 >= 0 and a2 >= 0 and a3 >= 0
    pre: 1 <= drank <= 4
    post: __return__
    """
    import nixio
    R = PART
    assume(0 <= axis < R)
    f = _file()
    with untraced():
        blk = f.create_block("b", "t")
    ns, as_ = (n0, n1, n2, n3)[:R], (a0, a1, a2, a3)
    da = blk.create_data_array("da", "t", dtype=nixio.DataType.Double, shape=tuple(ns))
    ds = da._h5group.group["data"]
    del ds.node.oplog[:]
    data = _Blob(_pick([as_[:1], as_[:2], as_[:3], as_[:4]], drank - 1))
    ok = drank == R and all(as_[d] == ns[d] for d in range(R) if d != axis)
    try:
        da.append(data, axis=axis)
        accepted = True
    except ValueError:
        accepted = False
    if accepted != ok:
        return False
    if not accepted:
        return ds.node.oplog == [] and tuple(da.shape) == tuple(ns)
    new = tuple(ns[d] + (as_[d] if d == axis else 0) for d in range(R))
    if tuple(da.shape) != new:
        return False
    log = ds.node.oplog
    if any(as_[d] == 0 for d in range(R)):
        # a block without elements stores nothing: only the extents are observable (checked above);
        # the backend calls may be skipped, but a call that IS made must be the right one
        if len(log) == 0:
            return True
        if log[0] != ("resize", new) or len(log) > 2:
            return False
        if len(log) == 1:
            return True
    if len(log) != 2 or log[0] != ("resize", new):
        return False
    kind, key, written = log[1]
    if kind != "write" or written is not data or not isinstance(key, tuple) or len(key) != R:
        return False
    for d in range(R):
        s = key[d]
        lo = ns[d] if d == axis else 0
        hi = lo + as_[d]
        if not (isinstance(s, slice) and s.start == lo and s.stop == hi and s.step in (None, 1)):
            return False
    return True


# ---------------------------------------------------------------------------
# 1b. appends through TWO live handles of one array (every lookup hands out a new handle):
#     three appends of k1, k2, k3 elements, each through either handle -> the extent grows by
#     the sum and every block lands directly behind the previous one
# ---------------------------------------------------------------------------
def _ob_append_two_handles(n: int, k1: int, k2: int, k3: int, h1: bool, h2: bool, h3: bool, grow: int) -> bool:
    """
    pre: n >= 0 and k1 >= 1 and k2 >= 1 and k3 >= 1
    pre: 0 <= grow <= 1
    post: __return__
    """
    import nixio
    f = _file()
    with untraced():
        blk = f.create_block("b", "t")
    a = blk.create_data_array("da", "t", dtype=nixio.DataType.Double, shape=(n,))
    b = blk.data_arrays["da"]
    if tuple(a.shape) != (n,) or tuple(b.shape) != (n,) or len(a) != n:      # both handles have read the extent
        return False
    ds = a._h5group.group["data"]
    del ds.node.oplog[:]
    total = n
    expect = []
    if grow == 1:
        # the extent is also changed directly through the other handle
        b.data_extent = (n + 5,)
        total = n + 5
        expect.append(("resize", (total,)))
    for k, via_b in ((k1, h1), (k2, h2), (k3, h3)):
        data = _Blob((k,))
        (b if via_b else a).append(data)
        expect.append(("resize", (total + k,)))
        expect.append(("write", total, total + k, data))
        total = total + k
    if tuple(a.shape) != (total,) or tuple(b.shape) != (total,) or len(a) != total or len(b) != total:
        return False
    log = ds.node.oplog
    if len(log) != len(expect):
        return False
    for got, want in zip(log, expect):
        if want[0] == "resize":
            if got != want:
                return False
        else:
            kind, key, written = got
            if kind != "write" or written is not want[3] or not isinstance(key, tuple) or len(key) != 1:
                return False
            sl = key[0]
            if not (isinstance(sl, slice) and sl.start == want[1] and sl.stop == want[2] and sl.step in (None, 1)):
                return False
    return True


def _replay_two_handles(args):
    import os
    import shutil
    import tempfile
    import numpy as np
    nixfake.uninstall()
    tmp = tempfile.mkdtemp(prefix="vf_c01_")
    try:
        import nixio
        if max(args["n"], args["k1"], args["k2"], args["k3"]) > 100000:
            return None, {"skipped": "extent too large to replay"}
        f = nixio.File.open(os.path.join(tmp, "t.nix"), nixio.FileMode.Overwrite)
        blk = f.create_block("b", "t")
        n = args["n"]
        ref = np.arange(float(n))
        a = blk.create_data_array("da", "t", dtype=nixio.DataType.Double, shape=(n,))
        if n:
            a.write_direct(ref)
        b = blk.data_arrays["da"]
        a.shape, b.shape, len(a)
        if args["grow"] == 1:
            b.data_extent = (n + 5,)
            ref = np.concatenate([ref, np.zeros(5)])
        nxt = 1000.0
        for k, via_b in ((args["k1"], args["h1"]), (args["k2"], args["h2"]), (args["k3"], args["h3"])):
            blkdata = np.arange(nxt, nxt + k)
            nxt += k
            (b if via_b else a).append(blkdata)
            ref = np.concatenate([ref, blkdata])
        got = np.asarray(blk.data_arrays["da"][:])
        bad = tuple(a.shape) != ref.shape or tuple(b.shape) != ref.shape or got.shape != ref.shape or \
            not np.array_equal(got, ref)
        f.close()
        return bad, {"expected_shape": list(ref.shape), "shape_a": list(a.shape) if False else None,
                     "stored": got.tolist()[:30], "expected": ref.tolist()[:30]}
    except Exception:  # noqa
        import traceback
        return True, {"raised_on_real_stack": traceback.format_exc()[-600:]}
    finally:
        nixfake.install()
        shutil.rmtree(tmp, ignore_errors=True)


# ---------------------------------------------------------------------------
# 2. compression inheritance
# ---------------------------------------------------------------------------
def _ob_compression(cf: int, cb: int, ca: int, with_data: bool) -> bool:
    """
    pre: 0 <= cf < 3 and 0 <= cb < 3 and 0 <= ca < 3
    post: __return__
    """
    import nixio
    C = nixio.Compression
    tbl = [C.No, C.DeflateNormal, C.Auto]
    fc, bc, ac = _pick(tbl, cf), _pick(tbl, cb), _pick(tbl, ca)
    f = _file(fc)
    blk = f.create_block("b", "t", compression=bc)
    if with_data:
        da = blk.create_data_array("da", "t", data=[1.0, 2.0], compression=ac)
    else:
        da = blk.create_data_array("da", "t", shape=(2,), compression=ac)
    eff = ac
    if eff == C.Auto:
        eff = bc
    if eff == C.Auto:
        eff = fc
    want = "gzip" if eff == C.DeflateNormal else None
    ds = da._h5group.group["data"]
    return ds.compression == want


# ---------------------------------------------------------------------------
# 3. create_data_array: shape / dtype / maxshape decisions
# ---------------------------------------------------------------------------
def _ob_create(di: int, si: int, ti: int) -> bool:
    """
    pre: 0 <= di < 4 and 0 <= si < 5 and 0 <= ti < 4
    post: __return__
    """
    import numpy as np
    f = _file()
    with untraced():
        blk = f.create_block("b", "t")
    data = _pick([None, [1, 2, 3], [[1.5, 2.5], [3.5, 4.5]], np.zeros((0, 2), dtype=np.int16)], di)
    shape = _pick([None, (3,), (2, 2), (0, 2), (4,)], si)
    dtype = _pick([None, np.int32, np.float32, np.bool_], ti)
    dshape = None if data is None else np.shape(data)
    try:
        da = blk.create_data_array("da", "t", dtype=dtype, shape=shape, data=data)
    except ValueError:
        # refused iff neither given, or both given and different
        return (data is None and shape is None) or (data is not None and shape is not None and
                                                    tuple(shape) != tuple(dshape))
    if (data is None and shape is None) or (data is not None and shape is not None and
                                            tuple(shape) != tuple(dshape)):
        return False
    want_shape = tuple(dshape) if data is not None else tuple(shape)
    ds = da._h5group.group["data"]
    if tuple(ds.shape) != want_shape or tuple(da.shape) != want_shape:
        return False
    if ds.maxshape != (None,) * len(want_shape):
        return False
    want_dtype = dtype if dtype is not None else (np.asarray(data).dtype if data is not None else "f8")
    if np.dtype(ds.node.dtype) != np.dtype(want_dtype):
        return False
    if data is not None:
        # the whole array was written once, with the data as given
        writes = [e for e in ds.node.oplog if e[0] == "write"]
        if len(writes) != 1 or writes[0][1] is not None and not _whole(writes[0][1]):
            return False
        if np.asarray(writes[0][2]).tolist() != np.asarray(data).tolist():
            return False
    return True


def _whole(key):
    return key == slice(None) or key is Ellipsis or key == ()


# ---------------------------------------------------------------------------
# 4. index expressions and values reach the backend unchanged
# ---------------------------------------------------------------------------
def _ob_passthrough(kind: int, k: int, a: int, an: bool, b: int, bn: bool, write: bool) -> bool:
    """
    pre: 0 <= kind < 5
    post: __return__
    """
    import nixio
    f = _file()
    with untraced():
        blk = f.create_block("b", "t")
        da = blk.create_data_array("da", "t", dtype=nixio.DataType.Double, shape=(5, 3))
    ds = da._h5group.group["data"]
    ds.node.value = None
    del ds.node.oplog[:]
    sl = slice(None if an else a, None if bn else b)
    expr = [k, sl, (k, sl), (sl, k), Ellipsis][kind] if kind != 4 else Ellipsis
    if kind == 0:
        expr = k
    if write:
        sentinel = _Blob((1,))
        da[expr] = sentinel
        log = ds.node.oplog
        return len(log) == 1 and log[0][0] == "write" and _same_key(log[0][1], expr) and log[0][2] is sentinel
    # reads: the fake dataset logs nothing on read, so wrap it
    seen = []
    orig = fakeh5.Dataset.__getitem__

    def spy(self, key):
        seen.append(key)
        return fakeh5._FArr([0.0], (1,), self.node.dtype)
    fakeh5.Dataset.__getitem__ = spy
    try:
        da[expr]
    finally:
        fakeh5.Dataset.__getitem__ = orig
    return len(seen) == 1 and _same_key(seen[0], expr)


def _same_key(got, want):
    if isinstance(want, tuple):
        return isinstance(got, tuple) and len(got) == len(want) and \
            all(_same_key(g, w) for g, w in zip(got, want))
    if isinstance(want, slice):
        return isinstance(got, slice) and got.start == want.start and got.stop == want.stop and \
            got.step == want.step
    if want is Ellipsis:
        return got is Ellipsis
    return (not isinstance(got, (slice, tuple))) and got == want


# ---------------------------------------------------------------------------
# 5. the shape of what a read returns: the selection's shape; a scalar becomes (1,)
# ---------------------------------------------------------------------------
SHAPES = [(1,), (1, 1), (2, 1), (1, 1, 1), (3,), (0, 1)]


def _ob_read_shape(si: int, ei: int) -> bool:
    """
    pre: 0 <= si < 6 and 0 <= ei < 5
    post: __return__
    """
    import numpy as np
    import nixio
    shape = _pick(SHAPES, si)
    f = _file()
    with untraced():
        blk = f.create_block("b", "t")
        da = blk.create_data_array("da", "t", dtype=nixio.DataType.Double, shape=shape)
    expr = _pick([slice(None), Ellipsis, 0, (slice(None),) * len(shape), (0,) * len(shape)], ei)
    ref = np.zeros(shape)
    try:
        want = ref[expr]
    except IndexError:
        want = None
    try:
        got = da[expr]
    except IndexError:
        return want is None
    if want is None:
        return False
    wshape = want.shape if want.shape != () else (1,)
    return tuple(np.asarray(got).shape) == tuple(wshape)


def validate():
    return {"fakeh5_vs_h5py": fakeh5.validate_against_h5py()}


def _replay_append(args):
    """real stack: append real arrays, compare shape and content with NumPy"""
    import os
    import shutil
    import tempfile
    import numpy as np
    import nixio
    R = PART
    ns = [args["n%d" % d] for d in range(R)]
    as_ = [args["a%d" % d] for d in range(args["drank"])]
    if any(v > 12 for v in ns + as_):
        return None, {"skipped": "extent too large for a real replay"}
    tmp = tempfile.mkdtemp(prefix="vf_c01_")
    try:
        f = nixio.File(os.path.join(tmp, "t.nix"), "w")
        blk = f.create_block("b", "t")
        base = np.arange(int(np.prod(ns)), dtype=np.float64).reshape(ns)
        da = blk.create_data_array("da", "t", data=base)
        add = -1.0 - np.arange(int(np.prod(as_)), dtype=np.float64).reshape(as_)
        ok = len(as_) == R and all(as_[d] == ns[d] for d in range(R) if d != args["axis"])
        try:
            da.append(add, axis=args["axis"])
            accepted = True
        except ValueError:
            accepted = False
        got = np.asarray(da[:]).reshape(da.shape) if int(np.prod(da.shape)) else np.zeros(da.shape)
        if ok:
            want = np.concatenate([base, add], axis=args["axis"])
        else:
            want = base
        bad = accepted != ok or tuple(da.shape) != want.shape or not np.array_equal(got, want)
        f.close()
        return bad, {"accepted": accepted, "expected_accept": ok, "shape": list(da.shape) if False else list(want.shape)}
    finally:
        shutil.rmtree(tmp, ignore_errors=True)


def _real(fn_name, args):
    import os
    import shutil
    import tempfile
    global PATH
    tmp = tempfile.mkdtemp(prefix="vf_c01_")
    try:
        # these obligations inspect the backend call log, which only the fake has:
        # re-run on the fake in plain CPython (no storage aspect beyond the call itself)
        ok = globals()[fn_name](**args)
        return (not ok), {"holds_in_plain_cpython": ok}
    except Exception as e:  # noqa
        import traceback
        return True, {"raised": traceback.format_exc()[-500:]}
    finally:
        shutil.rmtree(tmp, ignore_errors=True)


_S = "nixio.data_set.DataSet."
OBLIGATIONS = [
    Ob("append_hyperslab", _ob_append, timeout=900,
       partition_by_tier={"quick": [1, 2, 3], "thorough": [1, 2, 3, 4]},
       functions=[_S + "append", _S + "data_extent", _S + "_write_data",
                  "nixio.hdf5.h5dataset.H5DataSet.write_data"],
       replay=_replay_append,
       outside="axis outside [0, rank) (nixio then overwrites instead of appending: noted in "
               "DESIGN.md, not claimed); the bytes written (libhdf5)"),
    Ob("compression_inheritance", _ob_compression, timeout=600,
       functions=["nixio.data_array.DataArray.create_new", "nixio.block.Block.create_data_array",
                  "nixio.file.File.create_block", "nixio.hdf5.h5dataset.H5DataSet.__init__"],
       replay=lambda a: _real("_ob_compression", a)),
    Ob("create_shape_dtype", _ob_create, timeout=600,
       functions=["nixio.block.Block.create_data_array", "nixio.hdf5.h5dataset.H5DataSet.__init__"],
       replay=lambda a: _real("_ob_create", a)),
    Ob("append_through_two_handles", _ob_append_two_handles, timeout=600,
       functions=["nixio.data_set.DataSet.append", "nixio.data_set.DataSet.data_extent",
                  "nixio.data_set.DataSet.shape", "nixio.hdf5.h5dataset.H5DataSet.shape"],
       replay=_replay_two_handles,
       outside="rank 1; three appends (all extents unbounded) through either of two live handles, optionally "
               "after a direct change of the extent through the other handle"),
    Ob("index_passthrough", _ob_passthrough, timeout=600,
       functions=["nixio.hdf5.h5dataset.H5DataSet.write_data", "nixio.hdf5.h5dataset.H5DataSet.read_data",
                  "nixio.data_array.DataArray._read_data", _S + "__setitem__", _S + "__getitem__"],
       replay=lambda a: _real("_ob_passthrough", a)),
    Ob("read_shape_rule", _ob_read_shape, timeout=600,
       functions=["nixio.data_array.DataArray._read_data"], replay=lambda a: _real("_ob_read_shape", a)),
]

ASSUMPTIONS = ["libhdf5 stores and returns the bytes it is given, for every element type and filter, "
               "also after reopening (NOT decided here)"]
