"""C12 - A refused operation leaves the file exactly as it was.

Real code executed symbolically on fakeh5: every public creating / mutating call
of the statement (File.create_block/create_section, Block.create_data_array /
create_tag / create_multi_tag / create_group / create_source, Source.create_source,
Section.create_section / create_property, DataArray.append_*_dimension,
DataSet.append, Property.values / extend_values, RangeDimension.ticks,
Dimension.link_data_array, LinkContainer.append (group lists, tag references),
SourceLinkContainer.append, BaseTag.create_feature, Feature.data,
MultiTag.positions, Entity.type / definition and further attribute setters).

One obligation per call site.  The arguments are symbolic selectors over tables
of argument CLASSES (fresh / duplicate / empty / slash name, empty type,
unsupported dtype - the backend fault BAD_DTYPE -, inconvertible data,
mismatching shapes, unordered ticks, wrong kind, wrong block, bad index ...).
Assertion: if the call raises, the raw object store (all groups, links, attrs,
dataset shapes and contents) is identical to the snapshot taken before the call,
and the same call with valid arguments then succeeds.
"""
from vf.ob import Ob, assume, untraced
from vf import models, fakeh5, nixfake

PROPERTY = "C12"
PART = None
PATH = "/v/c12.nix"


def setup():
    models.install_quiet_format()
    nixfake.install()


def _pick(tbl, i):
    for k in range(len(tbl)):
        if i == k:
            return tbl[k]
    assume(False)


def _fixture():
    with untraced():
        return _fixture_concrete()


def _fixture_concrete():
    import nixio
    nixfake.begin()
    f = nixio.File(PATH, "w")
    E = {"file": f}
    E["blk"] = blk = f.create_block("blk", "t")
    E["blk2"] = blk2 = f.create_block("blk2", "t")
    E["da"] = da = blk.create_data_array("da", "t", data=[[1.0, 2.0, 3.0], [4.0, 5.0, 6.0]])
    E["da1"] = blk.create_data_array("da1", "t", data=[1.0, 2.0])
    E["foreign_da"] = blk2.create_data_array("da", "t", data=[9.0])     # same name, other block
    E["foreign_src"] = blk2.create_source("src", "t")
    da.append_range_dimension([1.0, 2.0])
    da.append_set_dimension(["a", "b", "c"])
    E["tag"] = tag = blk.create_tag("tg", "t", [0.0])
    tag.references.append(da)
    E["feat"] = tag.create_feature(E["da1"], nixio.LinkType.Untagged)
    E["mt"] = blk.create_multi_tag("mt", "t", positions=E["da1"])
    E["mt"].extents = E["da1"]
    E["grp"] = blk.create_group("grp", "t")
    E["src"] = src = blk.create_source("src", "t")
    E["sec"] = sec = f.create_section("sec", "t")
    E["prop"] = sec.create_property("p", [1, 2])
    E["sprop"] = sec.create_property("s", ["x"])
    E["sub"] = sec.create_section("sub", "t")
    return E


NAMES = ["fresh", "", "a/b", "DUP"]       # DUP is replaced by the existing name at the call site
TYPES = ["t", ""]


def _name(ni, dup):
    n = _pick(NAMES, ni)
    return dup if n == "DUP" else n


def _judge(E, call, valid_call):
    """run `call`; if it raises the store must be unchanged and valid_call must then work"""
    st = nixfake.store_of(E["file"])
    before = fakeh5.snapshot(st)
    try:
        call()
    except Exception:  # noqa  any refusal
        if fakeh5.snapshot(st) != before:
            return False
        try:
            valid_call()
        except Exception:  # noqa
            return False
        return fakeh5.snapshot(st) != before      # the valid call did create / change something
    return True


# ---------------------------------------------------------------------------
# creating calls with name / type classes      PART = call site
# ---------------------------------------------------------------------------
def _ob_create_named(ni: int, ti: int) -> bool:
    """
    pre: 0 <= ni < 4 and 0 <= ti < 2
    post: __return__
    """
    E = _fixture()
    site = PART
    typ = _pick(TYPES, ti)
    f, blk, src, sec = E["file"], E["blk"], E["src"], E["sec"]
    table = {
        "File.create_block": (lambda n, t: f.create_block(n, t), "blk"),
        "File.create_section": (lambda n, t: f.create_section(n, t), "sec"),
        "Block.create_group": (lambda n, t: blk.create_group(n, t), "grp"),
        "Block.create_source": (lambda n, t: blk.create_source(n, t), "src"),
        "Source.create_source": (lambda n, t: src.create_source(n, t), None),
        "Section.create_section": (lambda n, t: sec.create_section(n, t), "sub"),
        "Block.create_data_array": (lambda n, t: blk.create_data_array(n, t, data=[1.0]), "da"),
        "Block.create_tag": (lambda n, t: blk.create_tag(n, t, [1.0]), "tg"),
        "Block.create_multi_tag": (lambda n, t: blk.create_multi_tag(n, t, positions=E["da1"]), "mt"),
        "Block.create_multi_tag(list)": (lambda n, t: blk.create_multi_tag(n, t, positions=[1.0, 2.0]), "mt"),
    }
    fn, dup = table[site]
    if dup is None:
        src.create_source("child", "t")
        dup = "child"
    name = _name(ni, dup)
    return _judge(E, lambda: fn(name, typ), lambda: fn("valid-name", "t"))


# ---------------------------------------------------------------------------
# create_data_array argument classes
# ---------------------------------------------------------------------------
UUIDLIKE = "0123456789abcdef0123456789abcdef"


def _ob_create_data_array(di: int, si: int, vi: int, ui: int, ni: int) -> bool:
    """
    pre: 0 <= di < 3 and 0 <= si < 3 and 0 <= vi < 4 and 0 <= ui < 2 and 0 <= ni < 3
    post: __return__
    """
    import numpy as np
    E = _fixture()
    blk = E["blk"]
    # an ordinary name, a name that is the id text of an existing sibling, a name that looks like an id
    name = _pick(["n", E["da"].id, UUIDLIKE], ni)
    dtype = _pick([None, np.float64, fakeh5.BAD_DTYPE], di)
    shape = _pick([None, (2,), (3,)], si)
    data = _pick([None, [1.0, 2.0], [[1.0], [2.0]], ["a", "b"]], vi)
    unit = _pick([None, 5], ui)
    return _judge(E, lambda: blk.create_data_array(name, "t", dtype=dtype, shape=shape, data=data, unit=unit),
                  lambda: blk.create_data_array(name, "t", data=[1.0, 2.0]))


# ---------------------------------------------------------------------------
# create_tag / create_multi_tag / create_feature argument classes
# ---------------------------------------------------------------------------
def _ob_create_tag(pi: int, ni: int) -> bool:
    """
    pre: 0 <= pi < 4 and 0 <= ni < 3
    post: __return__
    """
    E = _fixture()
    blk = E["blk"]
    pos = _pick([[1.0], 2.0, ["a"], "xy"], pi)
    name = _pick(["n", E["tag"].id, UUIDLIKE], ni)
    return _judge(E, lambda: blk.create_tag(name, "t", pos), lambda: blk.create_tag(name, "t", [1.0]))


def _ob_create_multi_tag(pi: int, ei: int, pre_pos: bool, pre_ext: bool) -> bool:
    """
    pre: 0 <= pi < 5 and 0 <= ei < 4
    post: __return__
    """
    assume(pi == PART)
    E = _fixture()
    blk = E["blk"]
    # history: arrays with the names the call would auto-create may already exist
    # (e.g. left over from a deleted multi-tag of the same name)
    if pre_pos:
        E["grp"].data_arrays.append(blk.create_data_array("n-positions", "t", data=[1.0]))
    if pre_ext:
        E["grp"].data_arrays.append(blk.create_data_array("n-extents", "t", data=[1.0]))
    pos = _pick([E["da1"], [1.0, 2.0], ["a", "b"], None, E["foreign_da"]], pi)
    ext = _pick([None, E["da1"], [1.0, 2.0], ["a", "b"]], ei)
    return _judge(E, lambda: blk.create_multi_tag("n", "t", positions=pos, extents=ext),
                  lambda: blk.create_multi_tag("n2", "t", positions=E["da1"]))


def _ob_create_feature(di: int, li: int) -> bool:
    """
    pre: 0 <= di < 5 and 0 <= li < 4
    post: __return__
    """
    import nixio
    E = _fixture()
    tag = E["tag"]
    data = _pick([E["da"], None, E["foreign_da"], E["tag"], "da"], di)
    lt = _pick([nixio.LinkType.Tagged, "indexed", "bogus", None], li)
    return _judge(E, lambda: tag.create_feature(data, lt),
                  lambda: tag.create_feature(E["da"], nixio.LinkType.Tagged))


# ---------------------------------------------------------------------------
# section / property
# ---------------------------------------------------------------------------
def _ob_create_property(ni: int, vi: int) -> bool:
    """
    pre: 0 <= ni < 4 and 0 <= vi < 9
    post: __return__
    """
    import numpy as np
    E = _fixture()
    sec = E["sec"]
    name = _name(ni, "p")
    # ... an integer that does not fit the stored type, a NumPy array of a type nixio does not store
    vals = _pick([[1, 2], [1, "a"], [], None, [1.5, 2], [True, 1], 3, [1, 2 ** 70],
                  np.array([1.0, 2.0], dtype=np.float32)], vi)
    return _judge(E, lambda: sec.create_property(name, vals), lambda: sec.create_property("valid", [1]))


def _ob_property_values(oi: int, vi: int, wi: int) -> bool:
    """
    pre: 0 <= oi < 2 and 0 <= vi < 8 and 0 <= wi < 2
    post: __return__
    """
    E = _fixture()
    prop = _pick([E["prop"], E["sprop"]], wi)
    vals = _pick([[7], [1.5], ["a"], [1, "a"], [True], [1, 2.5], [1, 2 ** 70], [2 ** 70]], vi)
    good = [7] if wi == 0 else ["y"]
    if oi == 0:
        return _judge(E, lambda: setattr(prop, "values", vals), lambda: setattr(prop, "values", good))
    return _judge(E, lambda: prop.extend_values(vals), lambda: prop.extend_values(good))


# ---------------------------------------------------------------------------
# dimensions
# ---------------------------------------------------------------------------
def _ob_append_dimension(ki: int, ai: int, bi: int) -> bool:
    """
    pre: 0 <= ki < 3 and 0 <= ai < 4 and 0 <= bi < 2
    post: __return__
    """
    E = _fixture()
    da = E["da1"]
    if ki == 0:
        labels = _pick([["a", "b"], [1, 2], "ab", None], ai)
        return _judge(E, lambda: da.append_set_dimension(labels), lambda: da.append_set_dimension(["a"]))
    unit = _pick([None, 5], bi)
    if ki == 1:
        interval = _pick([1.0, "x", None, 2], ai)
        return _judge(E, lambda: da.append_sampled_dimension(interval, unit=unit),
                      lambda: da.append_sampled_dimension(1.0))
    ticks = _pick([[1.0, 2.0], [2.0, 1.0], ["a", "b"], None], ai)
    return _judge(E, lambda: da.append_range_dimension(ticks, unit=unit),
                  lambda: da.append_range_dimension([1.0, 2.0]))


def _ob_ticks_and_link(oi: int, ai: int) -> bool:
    """
    pre: 0 <= oi < 4 and 0 <= ai < 7
    post: __return__
    """
    E = _fixture()
    rdim = E["da"].dimensions[0]
    sdim = E["da"].dimensions[1]
    TICKS = [[3.0, 4.0], [4.0, 3.0], [1.0, 1.0, 0.5], ["a"], [5.0], [], [[1.0, 2.0], [3.0, 4.0]]]
    if oi == 3:
        # history: the range dimension takes its ticks from a linked array
        rdim.link_data_array(E["da"], [0, -1])
        ticks = _pick(TICKS, ai)
        return _judge(E, lambda: setattr(rdim, "ticks", ticks), lambda: setattr(rdim, "ticks", [7.0, 8.0]))
    if oi == 0:
        ticks = _pick(TICKS, ai)
        return _judge(E, lambda: setattr(rdim, "ticks", ticks), lambda: setattr(rdim, "ticks", [7.0, 8.0]))
    assume(ai < 5)
    index = _pick([[0, -1], [-1], [-1, -1], [-2, -1], [0, 0]], ai)
    dim = rdim if oi == 1 else sdim
    return _judge(E, lambda: dim.link_data_array(E["da"], index), lambda: dim.link_data_array(E["da"], [0, -1]))


def _ob_create_data_frame(ai: int, ni: int) -> bool:
    """
    pre: 0 <= ai < 12 and 0 <= ni < 5
    post: __return__
    """
    from collections import OrderedDict
    E = _fixture()
    blk = E["blk"]
    with untraced():
        blk.create_data_frame("df", "t", col_names=["c"], col_dtypes=[int], data=[(1,)])
    name = _pick(["fresh", "", "a/b", "df", E["da"].id], ni)
    kw = _pick([
        dict(col_names=["a", "b"], col_dtypes=[int, float], data=[(1, 1.5), (2, 2.5)]),          # valid
        dict(col_names=["a", "b"], col_dtypes=[int, float], data=[(1, 1.5), (2,)]),              # ragged rows
        dict(col_names=["a", "b"], col_dtypes=[int, float], data=[("x", 1.5)]),                  # text in a number column
        dict(col_names=["a"], col_dtypes=[dict]),                                                # no such column type
        dict(col_names=["a", "a"], col_dtypes=[int, int]),                                       # duplicate column
        dict(),                                                                                  # no columns at all
        dict(col_names=["a"]),                                                                   # no types, no data
        dict(col_dict=OrderedDict([("a", int), ("b", str)]), data=[(1, "x", 3)]),               # row too long
        dict(col_names=[], col_dtypes=[]),                                                       # zero columns
        dict(copy_from=E["da"]),                                                                 # not a data frame
        dict(col_dict=OrderedDict([("a", int), ("b", str)]), data=[(1, "x")]),                   # valid, with text
        dict(col_names=["a", "b"], data=[(1, "x"), (2,)]),                                       # types from data, ragged
    ], ai)
    return _judge(E, lambda: blk.create_data_frame(name, "t", **kw),
                  lambda: blk.create_data_frame("valid-name", "t", col_names=["a"], col_dtypes=[int]))


def _ob_feature_data_setter(li: int, ii: int, first: int) -> bool:
    """
    pre: 0 <= li < 3 and 0 <= ii < 8 and 0 <= first < 2
    post: __return__
    """
    import nixio
    E = _fixture()
    blk, blk2, tag = E["blk"], E["blk2"], E["tag"]
    with untraced():
        fr = blk.create_data_frame("fr", "t", col_names=["c"], col_dtypes=[float], data=[(1.5,), (2.5,)])
        fr2 = blk2.create_data_frame("fr", "t", col_names=["c"], col_dtypes=[float], data=[(1.5,)])
    ltype = _pick([nixio.LinkType.Tagged, nixio.LinkType.Untagged, nixio.LinkType.Indexed], li)
    start = E["da1"] if (first == 0 or li == 0) else fr          # what the feature points to before
    feat = tag.create_feature(start, ltype)
    new = _pick([E["da"], E["foreign_da"], fr, fr2, None, tag, 5, E["da1"]], ii)

    def setit():
        feat.data = new
    return _judge(E, setit, lambda: setattr(feat, "data", E["da"]))


def _ob_link_frame(ii: int, di: int, hist: int) -> bool:
    """
    pre: 0 <= ii < 8 and 0 <= di < 2 and 0 <= hist < 3
    post: __return__
    """
    import numpy as np
    from collections import OrderedDict
    E = _fixture()
    with untraced():
        df = E["blk"].create_data_frame("df", "t", col_dict=OrderedDict([("name", str), ("id", int), ("x", float)]),
                                        data=[("a", 1, 1.5), ("b", 2, 2.5)])
    dim = _pick([E["da"].dimensions[0], E["da"].dimensions[1]], di)     # range / set dimension
    if hist == 1:
        dim.link_data_frame(df, 2)                  # history: already linked to a column
    elif hist == 2:
        dim.link_data_array(E["da"], [0, -1])       # history: linked to an array
    index = _pick([1, np.int64(1), 3, -1, "1", 1.0, None, True], ii)
    target = df
    if ii == 7:
        index, target = 1, E["da1"]                 # not a data frame at all
    return _judge(E, lambda: dim.link_data_frame(target, index), lambda: dim.link_data_frame(df, 2))


# ---------------------------------------------------------------------------
# data append
# ---------------------------------------------------------------------------
def _ob_append_data(vi: int, ax: int) -> bool:
    """
    pre: 0 <= vi < 7 and 0 <= ax < 2
    post: __return__
    """
    E = _fixture()
    da = E["da"]          # shape (2, 3)
    # ... rows of the right shape that cannot be converted to the array's element type
    data = _pick([[[7.0, 8.0, 9.0]], [[7.0, 8.0]], [7.0, 8.0, 9.0], [[7.0], [8.0]], [[[1.0]]],
                  [["a", "b", "c"]], [["a"], ["b"]]], vi)
    return _judge(E, lambda: da.append(data, axis=ax), lambda: da.append([[7.0, 8.0, 9.0]], axis=0))


# ---------------------------------------------------------------------------
# link lists
# ---------------------------------------------------------------------------
def _ob_link_append(ci: int, ii: int) -> bool:
    """
    pre: 0 <= ci < 5 and 0 <= ii < 7
    post: __return__
    """
    assume(ci == PART)
    E = _fixture()
    cont, good = _pick([(E["grp"].data_arrays, E["da"]), (E["tag"].references, E["da1"]),
                        (E["mt"].references, E["da"]), (E["grp"].tags, E["tag"]),
                        (E["da"].sources, E["src"])], ci)
    item = _pick([E["da"], E["tag"], E["foreign_da"], E["foreign_src"], "no-such-name", 5, E["sec"]], ii)
    return _judge(E, lambda: cont.append(item), lambda: cont.append(good))


# ---------------------------------------------------------------------------
# setters
# ---------------------------------------------------------------------------
def _ob_setters(si: int, vi: int) -> bool:
    """
    pre: 0 <= si < 17 and 0 <= vi < 5
    post: __return__
    """
    lo, hi = PART
    assume(lo <= si < hi)
    E = _fixture()
    bad = _pick([None, "", 5, ["x"], ["x", "y"]], vi)
    table = [
        (E["blk"], "type", "u"), (E["da"], "type", "u"), (E["sec"], "type", "u"),
        (E["blk"], "definition", "d"), (E["da"], "label", "l"), (E["da"], "unit", "mV"),
        (E["da"], "expansion_origin", 1.0), (E["tag"], "units", ["ms"]), (E["mt"], "positions", E["da"]),
        (E["feat"], "data", E["da"]), (E["feat"], "link_type", "tagged"), (E["sec"], "repository", "r"),
        (E["prop"], "unit", "mV"), (E["tag"], "position", [2.0]), (E["mt"], "extents", E["da"]),
        (E["da"], "metadata", E["sec"]), (E["tag"], "extent", [1.0]),
    ]
    obj, attr, good = _pick(table, si)
    return _judge(E, lambda: setattr(obj, attr, bad), lambda: setattr(obj, attr, good))


def validate():
    return {"fakeh5_vs_h5py": fakeh5.validate_against_h5py()}


# ---------------------------------------------------------------------------
# real-stack replay: the same call on a real HDF5 file; "unchanged" is judged
# through the public API (names of all containers, attributes, data)
# ---------------------------------------------------------------------------
def _api_picture(f):
    import numpy as np

    def ent(e):
        d = {"name": e.name, "type": e.type, "definition": e.definition}
        return d
    pic = {"blocks": []}
    for b in f.blocks:
        bd = ent(b)
        bd["data_arrays"] = []
        for a in b.data_arrays:
            ad = ent(a)
            try:
                ad.update(label=a.label, unit=a.unit, shape=tuple(a.shape), data=np.asarray(a[:]).tolist(),
                          origin=a.expansion_origin, dims=[])
            except Exception as e:  # noqa  (a half-created array cannot even be read)
                ad.update(unreadable=type(e).__name__, dims=[])
            for dm in a.dimensions:
                dd = {"kind": type(dm).__name__}
                if hasattr(dm, "ticks"):
                    try:
                        dd["ticks"] = [float(t) for t in dm.ticks]
                    except Exception as e:  # noqa
                        dd["ticks"] = "unreadable:%s" % type(e).__name__
                    dd["unit"] = dm.unit
                if hasattr(dm, "labels"):
                    dd["labels"] = list(dm.labels)
                if hasattr(dm, "sampling_interval"):
                    dd["si"] = dm.sampling_interval
                    dd["unit"] = dm.unit
                dd["link"] = dm.has_link
                ad["dims"].append(dd)
            ad["sources"] = [s.name for s in a.sources]
            bd["data_arrays"].append(ad)
        bd["data_frames"] = []
        for fr in b.data_frames:
            fd = ent(fr)
            try:
                fd.update(columns=list(fr.column_names), kinds=[str(x) for x in fr.dtype],
                          rows=[tuple(np.asarray(x).tolist() if hasattr(x, "tolist") else x for x in r)
                                for r in fr[:]])
            except Exception as e:  # noqa  (a half-created frame cannot even be read)
                fd.update(unreadable=type(e).__name__)
            bd["data_frames"].append(fd)
        def feats(t):
            out = []
            for ft in t.features:
                try:
                    out.append((ft.data.name, type(ft.data).__name__, str(ft.link_type)))
                except Exception as e:  # noqa
                    out.append(("unreadable", type(e).__name__))
            return out
        bd["tags"] = [dict(ent(t), position=list(t.position), extent=list(t.extent), units=list(t.units),
                           refs=[r.name for r in t.references], feats=feats(t)) for t in b.tags]
        bd["multi_tags"] = [dict(ent(t), positions=t.positions.name,
                                 extents=(t.extents.name if t.extents else None),
                                 refs=[r.name for r in t.references]) for t in b.multi_tags]
        bd["groups"] = [dict(ent(g), das=[x.name for x in g.data_arrays], tags=[x.name for x in g.tags])
                        for g in b.groups]
        bd["sources"] = [dict(ent(s), children=[c.name for c in s.sources]) for s in b.sources]
        pic["blocks"].append(bd)

    def sec(s):
        d = ent(s)
        d["repository"] = s.repository
        d["props"] = [(p.name, list(p.values), p.unit) for p in s.props]
        d["sections"] = [sec(c) for c in s.sections]
        return d
    pic["sections"] = [sec(s) for s in f.sections]
    return pic


def _real_replay(fn_name, args):
    """re-run the obligation body against real h5py; _judge is replaced by an
    API-level comparison"""
    import os
    import shutil
    import tempfile
    import nixio
    global PATH, _judge
    tmp = tempfile.mkdtemp(prefix="vf_c12_")
    fakeh5.uninstall()
    old_path, old_judge = PATH, _judge
    PATH = os.path.join(tmp, "t.nix")
    detail = {}

    def real_judge(E, call, valid_call):
        f = E["file"]
        before = _api_picture(f)
        try:
            call()
        except Exception as e:  # noqa
            detail["raised"] = "%s: %s" % (type(e).__name__, str(e)[:200])
            after = _api_picture(f)
            if after != before:
                detail["changed"] = _diff(before, after)
                return False
            try:
                valid_call()
            except Exception as e2:  # noqa
                detail["valid_call_failed"] = "%s: %s" % (type(e2).__name__, str(e2)[:200])
                return False
            return True
        detail["raised"] = None
        return True
    _judge = real_judge
    try:
        try:
            ok = globals()[fn_name](**args)
        except Exception as e:  # noqa
            detail["raised_on_real_stack"] = "%s: %s" % (type(e).__name__, str(e)[:200])
            return True, detail
        return (not ok), detail
    finally:
        _judge = old_judge
        PATH = old_path
        fakeh5.install()
        shutil.rmtree(tmp, ignore_errors=True)


def _diff(a, b, path=""):
    if type(a) != type(b):
        return ["%s: %r -> %r" % (path, a, b)]
    if isinstance(a, dict):
        out = []
        for k in sorted(set(a) | set(b)):
            if a.get(k) != b.get(k):
                out += _diff(a.get(k), b.get(k), path + "/" + str(k))
        return out[:6]
    if isinstance(a, list):
        if len(a) != len(b):
            return ["%s: %d entries -> %d entries (%r)" % (path, len(a), len(b),
                                                        [x.get("name") if isinstance(x, dict) else x for x in b][-2:])]
        out = []
        for i, (x, y) in enumerate(zip(a, b)):
            if x != y:
                out += _diff(x, y, "%s[%d]" % (path, i))
        return out[:6]
    return ["%s: %r -> %r" % (path, a, b)]


def _mk_replay(fn_name):
    def rp(args):
        a = dict(args)
        # BAD_DTYPE sentinel has no real counterpart: use a dtype h5py refuses
        return _real_replay(fn_name, a)
    return rp


_SITES = ["File.create_block", "File.create_section", "Block.create_group", "Block.create_source",
          "Source.create_source", "Section.create_section", "Block.create_data_array",
          "Block.create_tag", "Block.create_multi_tag", "Block.create_multi_tag(list)"]

OBLIGATIONS = [
    Ob("create_named", _ob_create_named, timeout=600, partition=_SITES,
       functions=["nixio.entity.Entity.create_new", "nixio.util.util.check_entity_name_and_type",
                  "nixio.block.Block.create_multi_tag"],
       replay=_mk_replay("_ob_create_named")),
    Ob("create_data_array_args", _ob_create_data_array, timeout=900,
       functions=["nixio.block.Block.create_data_array", "nixio.data_array.DataArray.create_new"],
       replay=_mk_replay("_ob_create_data_array")),
    Ob("create_tag_args", _ob_create_tag, timeout=300,
       functions=["nixio.block.Block.create_tag", "nixio.tag.Tag.create_new"],
       replay=_mk_replay("_ob_create_tag")),
    Ob("create_multi_tag_args", _ob_create_multi_tag, timeout=900, partition=[0, 1, 2, 3, 4],
       functions=["nixio.block.Block.create_multi_tag", "nixio.multi_tag.MultiTag.create_new"],
       replay=_mk_replay("_ob_create_multi_tag")),
    Ob("create_feature_args", _ob_create_feature, timeout=900,
       functions=["nixio.tag.BaseTag.create_feature", "nixio.feature.Feature.create_new"],
       replay=_mk_replay("_ob_create_feature")),
    Ob("create_property_args", _ob_create_property, timeout=900,
       functions=["nixio.section.Section.create_property", "nixio.property.Property.create_new"],
       replay=_mk_replay("_ob_create_property")),
    Ob("property_values", _ob_property_values, timeout=900,
       functions=["nixio.property.Property.values", "nixio.property.Property.extend_values",
                  "nixio.property.Property._check_new_value_types"],
       replay=_mk_replay("_ob_property_values")),
    Ob("append_dimension", _ob_append_dimension, timeout=900,
       functions=["nixio.data_array.DataArray.append_set_dimension",
                  "nixio.data_array.DataArray.append_sampled_dimension",
                  "nixio.data_array.DataArray.append_range_dimension"],
       replay=_mk_replay("_ob_append_dimension")),
    Ob("create_data_frame_args", _ob_create_data_frame, timeout=600,
       functions=["nixio.block.Block.create_data_frame", "nixio.data_frame.DataFrame.create_new"],
       replay=_mk_replay("_ob_create_data_frame"),
       outside="twelve argument classes x five name classes (fresh, empty, with slash, duplicate, id text of a sibling)"),
    Ob("feature_data_setter", _ob_feature_data_setter, timeout=600,
       functions=["nixio.feature.Feature.data"], replay=_mk_replay("_ob_feature_data_setter"),
       outside="an existing feature of each link type on an array or a data frame; eight candidate values"),
    Ob("link_data_frame_args", _ob_link_frame, timeout=600,
       functions=["nixio.dimensions.Dimension.link_data_frame", "nixio.dimensions.RangeDimension.link_data_frame",
                  "nixio.dimensions.DimensionLink.create_new"],
       replay=_mk_replay("_ob_link_frame"),
       outside="one data frame of three columns; index classes int / numpy integer / out of range / negative / "
               "text / float / None; range and set dimension; with and without an earlier link"),
    Ob("ticks_and_dimension_link", _ob_ticks_and_link, timeout=900,
       functions=["nixio.dimensions.RangeDimension.ticks", "nixio.dimensions.Dimension.link_data_array"],
       replay=_mk_replay("_ob_ticks_and_link")),
    Ob("append_data", _ob_append_data, timeout=600, functions=["nixio.data_set.DataSet.append"],
       replay=_mk_replay("_ob_append_data")),
    Ob("link_list_append", _ob_link_append, timeout=900, partition=[0, 1, 2, 3, 4],
       functions=["nixio.container.LinkContainer.append",
                  "nixio.source_link_container.SourceLinkContainer.append"],
       replay=_mk_replay("_ob_link_append")),
    Ob("attribute_setters", _ob_setters, timeout=900,
       partition=[(0, 3), (3, 6), (6, 9), (9, 12), (12, 14), (14, 16), (16, 17)],
       functions=["nixio.entity.Entity.type", "nixio.feature.Feature.data",
                  "nixio.multi_tag.MultiTag.positions"],
       replay=_mk_replay("_ob_setters")),
]

ASSUMPTIONS = ["argument classes are finite tables (selectors are symbolic); 'arbitrary valid history' "
               "is represented by one fixture file containing every entity kind",
               "backend faults: dataset creation refuses BAD_DTYPE; writing text into a numeric "
               "dataset raises (as libhdf5/NumPy do)"]
