"""C10 - Metadata properties hold typed value lists; sections behave like ordered dicts.

Real code executed symbolically on fakeh5: Section.create_property,
Property.create_new, Property.values (getter/setter), extend_values,
delete_values, _check_new_value_types, data_type, DataType.get_dtype,
Section.__getitem__ / __setitem__ / __delitem__ / __contains__ / __len__ /
__iter__ / items, H5DataSet.read_data / write_data.

Value lists are symbolic in the KIND of every element (bool / int / float / str
selector), integer elements are unbounded symbolic ints, the other kinds come
from small tables that contain the colliding values True / 1 / 1.0 and the empty
and a non-ASCII string.  The NumPy calls of property.py (np.array, np.shape) are
served by a pure-Python shim so that values stay symbolic.
"""
from vf.ob import Ob, assume
from vf import models, fakeh5, nixfake

PROPERTY = "C10"
PART = None
PATH = "/v/c10.nix"

BOOLS = [True, False]
FLOATS = [1.0, 0.0, -2.5]
STRS = ["a", "", "ä"]


class _PropNp(models.NpShim):
    """np for nixio.property: arrays of python values stay python lists"""

    @staticmethod
    def array(x, dtype=None, **kw):
        return _Arr(list(x))

    @staticmethod
    def shape(x):
        return (len(x),)


class _Arr(models.Vec):
    def flatten(self, order="C"):
        return self

    @property
    def dtype(self):
        raise AttributeError("dtype")      # not a numpy array for hasattr(data, 'dtype')


def setup():
    import nixio.property as P
    models.install_quiet_format()
    nixfake.install()
    P.np = _PropNp()


def _pick(tbl, i):
    for k in range(len(tbl)):
        if i == k:
            return tbl[k]
    assume(False)


def _value(kind, v, s):
    if kind == 0:
        return _pick(BOOLS, s % 2)
    if kind == 1:
        return v
    if kind == 2:
        return _pick(FLOATS, s)
    return _pick(STRS, s)


def _dtype_of_kind(kind):
    from nixio import DataType
    return [DataType.Bool, DataType.Int64, DataType.Double, DataType.String][kind]


def _same(a, b):
    """same python value AND same kind (True is not 1 is not 1.0)"""
    if len(a) != len(b):
        return False
    for x, y in zip(a, b):
        if type(x) in (bool, float, str) or type(y) in (bool, float, str):
            if type(x) is not type(y):
                return False
        if not (x == y):
            return False
    return True


def _sec():
    import nixio
    nixfake.begin()
    f = nixio.File(PATH, "w")
    return f, f.create_section("sec", "t")


# ---------------------------------------------------------------------------
# 1. create_property with a value list of symbolic kinds     PART = length
# ---------------------------------------------------------------------------
def _ob_create(k1: int, k2: int, k3: int, v1: int, v2: int, v3: int,
               s1: int, s2: int, s3: int) -> bool:
    """
    pre: 0 <= k1 < 4 and 0 <= k2 < 4 and 0 <= k3 < 4
    pre: 0 <= s1 < 3 and 0 <= s2 < 3 and 0 <= s3 < 3
    post: __return__
    """
    n = PART
    f, sec = _sec()
    ks, vs, ss = (k1, k2, k3), (v1, v2, v3), (s1, s2, s3)
    vals = [_value(ks[j], vs[j], ss[j]) for j in range(n)]
    homogeneous = all(ks[j] == ks[0] for j in range(n))
    try:
        p = sec.create_property("p", vals)
    except TypeError:
        return (not homogeneous) and "p" not in sec.props and len(sec.props) == 0
    if not homogeneous:
        return False
    if not (p.data_type == _dtype_of_kind(ks[0])):
        return False
    got = list(sec.props["p"].values)
    return _same(got, vals)


# ---------------------------------------------------------------------------
# 2. assign / extend on an existing property     PART = (kind, op, length)
# ---------------------------------------------------------------------------
def _ob_assign_extend(k1: int, k2: int, v1: int, v2: int, s1: int, s2: int, o1: int, o2: int) -> bool:
    """
    pre: 0 <= k1 < 4 and 0 <= k2 < 4
    pre: 0 <= s1 < 3 and 0 <= s2 < 3
    post: __return__
    """
    kind, op, n = PART
    f, sec = _sec()
    old = [_value(kind, o1, 0), _value(kind, o2, 1)]
    p = sec.create_property("p", old)
    ks, vs, ss = (k1, k2), (v1, v2), (s1, s2)
    new = [_value(ks[j], vs[j], ss[j]) for j in range(n)]
    ok_types = all(ks[j] == kind for j in range(n))
    try:
        if op == "assign":
            p.values = new
        else:
            p.extend_values(new)
    except TypeError:
        return (not ok_types) and _same(list(p.values), old)
    if not ok_types:
        return False
    want = new if op == "assign" else old + new
    return _same(list(sec.props["p"].values), want) and p.data_type == _dtype_of_kind(kind)


def _ob_clear(kind: int, o1: int) -> bool:
    """
    pre: 0 <= kind < 4
    post: __return__
    """
    f, sec = _sec()
    p = sec.create_property("p", [_value(kind, o1, 0)])
    how = PART
    if how == "none":
        p.values = None
    elif how == "empty":
        p.values = []
    else:
        p.delete_values()
    if len(p.values) != 0:
        return False
    # the type stays fixed: values of another kind are still refused, same kind accepted
    other = (kind + 1) % 4
    try:
        p.values = [_value(other, 5, 0)]
        return False
    except TypeError:
        pass
    p.values = [_value(kind, 7, 1)]
    return _same(list(p.values), [_value(kind, 7, 1)])


# ---------------------------------------------------------------------------
# 3. dictionary-style access agrees with props / sections
# ---------------------------------------------------------------------------
KEYS = ["p1", "p2", "sub", "nope"]


def _ob_section_dict(op: int, ki: int, kind: int, v: int, s: int) -> bool:
    """
    pre: 0 <= op < 5 and 0 <= ki < 4 and 0 <= kind < 4 and 0 <= s < 3
    post: __return__
    """
    import nixio
    f, sec = _sec()
    sec.create_property("p1", [1, 2])
    sec.create_property("p2", ["x"])
    sec.create_section("sub", "t")
    key = _pick(KEYS, ki)
    val = _value(kind, v, s)
    if op == 0:                       # lookup
        try:
            got = sec[key]
        except KeyError:
            return key == "nope"
        if key == "p1":
            return got == [1, 2]
        if key == "p2":
            return got == "x"         # single values are unwrapped
        return key == "sub" and isinstance(got, nixio.Section) and got.name == "sub"
    if op == 1:                       # assignment
        try:
            sec[key] = val
        except TypeError:
            # only a type conflict with an existing property may be refused
            return (key == "p1" and kind != 1) or (key == "p2" and kind != 3)
        except nixio.exceptions.DuplicateName:
            return False
        if key in ("p1", "p2"):
            if (key == "p1" and kind != 1) or (key == "p2" and kind != 3):
                return False
        if not _same(list(sec.props[key].values), [val]):
            return False
    elif op == 2:                     # deletion of a property
        try:
            del sec[key]
        except KeyError:
            return key in ("sub", "nope")
        if key not in ("p1", "p2"):
            return False
        if key in sec.props:
            return False
    # consistency of len / membership / iteration / items with props + sections
    names_p = [p.name for p in sec.props]
    names_s = [s.name for s in sec.sections]
    if len(sec) != len(names_p):
        return False
    if [k for k, _ in sec.items()] != names_p + names_s:
        return False
    if [getattr(x, "name") for x in sec] != names_p + names_s:
        return False
    for k in KEYS:
        if (k in sec) != (k in names_p or k in names_s):
            return False
    return True


# ---------------------------------------------------------------------------
# 4. optional property attributes: what is set is what is read; a value of the
#    wrong type is refused and leaves the attribute (and the values) unchanged
# ---------------------------------------------------------------------------
OPT_ATTRS = [("definition", "str"), ("unit", "unit"), ("uncertainty", "num"), ("reference", "str"),
             ("dependency", "str"), ("dependency_value", "str"), ("value_origin", "str")]


def _ob_section_history(first: int, kind: int, v: int, via_props: bool) -> bool:
    """
    pre: 0 <= first < 2 and 0 <= kind < 4
    post: __return__
    """
    f, sec = _sec()                         # ONE Section object for the whole history
    sec.create_property("p1", [1, 2])
    sec.create_property("p2", ["x"])
    if len(sec) != 2 or "p1" not in sec:
        return False
    order = ("p1", "p2") if first == 0 else ("p2", "p1")
    for k in order:                         # delete every property: the container becomes empty
        if via_props:
            del sec.props[k]
        else:
            del sec[k]
    if len(sec) != 0 or "p1" in sec or "p2" in sec or [x for x in sec.props] != []:
        return False
    val = _value(kind, v, 1)
    sec["p1"] = val                         # ... and is filled again
    if not ("p1" in sec and len(sec) == 1 and [p.name for p in sec.props] == ["p1"]):
        return False
    if not _same(list(sec.props["p1"].values), [val]):
        return False
    fresh = f.sections["sec"]
    return [p.name for p in fresh.props] == ["p1"] and _same(list(fresh.props["p1"].values), [val])


def _ob_two_handles(o1: int, o2: int, o3: int, v: int) -> bool:
    """
    pre: 0 <= o1 < 7 and 0 <= o2 < 7 and 0 <= o3 < 7
    post: __return__
    """
    f, sec = _sec()
    a = sec.create_property("p", [1, 2, 3])          # the KEPT handle; it has been read from
    if not _same(list(a.values), [1, 2, 3]):
        return False
    want = [1, 2, 3]
    for o in (o1, o2, o3):
        b = sec.props["p"]                            # another handle of the same property
        if o == 0:
            a.values = [v, 8]
            want = [v, 8]
        elif o == 1:
            b.values = [v, 8]
            want = [v, 8]
        elif o == 2:
            sec["p"] = [v, 8]
            want = [v, 8]
        elif o == 3:
            a.extend_values([9])
            want = want + [9]
        elif o == 4:
            b.extend_values([9])
            want = want + [9]
        elif o == 5:
            a.values = None
            want = []
        else:
            b.values = None
            want = []
        # what was stored last is what every access path reads
        if not (_same(list(a.values), want) and _same(list(sec.props["p"].values), want)):
            return False
    fresh = f.sections["sec"]
    got = fresh["p"]                                   # dict-style read: a single value comes back bare
    if not isinstance(got, list):
        got = [got]
    return _same(list(fresh.props["p"].values), want) and _same(got, want)


def _ob_optional_attrs(ai: int, vi: int, wi: int) -> bool:
    """
    pre: 0 <= ai < 7 and 0 <= vi < 6 and 0 <= wi < 6
    post: __return__
    """
    f, sec = _sec()
    p = sec.create_property("p", [1, 2])
    attr, kind = _pick(OPT_ATTRS, ai)
    cands = ["text", "", None, 5, 2.5, ["x"]]
    for sel in (vi, wi):                      # two assignments in a row
        val = _pick(cands, sel)
        before = getattr(p, attr)
        if kind == "num":
            ok = val is None or isinstance(val, (int, float))
            want = None if (val is None or not ok) else float(val)
        elif kind == "unit":
            ok = val is None or isinstance(val, str)
            want = None if (val is None or val == "") else val
        else:
            ok = val is None or isinstance(val, str)
            want = val
        try:
            setattr(p, attr, val)
            accepted = True
        except Exception:  # noqa  any refusal (the statement does not fix the exception type here)
            accepted = False
        if accepted != ok:
            return False
        got = sec.props["p"]
        now = getattr(got, attr)
        if accepted:
            if not (now == want or (want == "" and now in ("", None))):
                return False
        elif now != before:
            return False
        if list(got.values) != [1, 2] or got.name != "p":
            return False
    return True


def validate():
    """shim used for property.py: array/shape behave like NumPy on plain lists"""
    import numpy as np
    a = _PropNp.array([1, 2, 3], dtype=np.int64)
    assert list(a) == [1, 2, 3] and _PropNp.shape([1, 2]) == np.shape([1, 2])
    assert list(a.flatten("C")) == list(np.array([1, 2, 3]).flatten("C"))
    return {"fakeh5_vs_h5py": fakeh5.validate_against_h5py()}


def _real(fn_name, args):
    import os
    import shutil
    import tempfile
    import numpy
    import nixio.property as P
    global PATH
    tmp = tempfile.mkdtemp(prefix="vf_c10_")
    fakeh5.uninstall()
    shim = P.np
    P.np = numpy
    old = PATH
    PATH = os.path.join(tmp, "t.nix")
    try:
        try:
            a = dict(args)
            for k in ("v1", "v2", "v3", "o1", "o2", "v"):
                if k in a:
                    a[k] = max(min(a[k], 2 ** 62), -2 ** 62)
            ok = globals()[fn_name](**a)
        except Exception as e:  # noqa
            return True, {"raised_on_real_stack": "%s: %s" % (type(e).__name__, str(e)[:200])}
        return (not ok), {"holds_on_real_stack": ok}
    finally:
        PATH = old
        P.np = shim
        fakeh5.install()
        shutil.rmtree(tmp, ignore_errors=True)


_P = "nixio.property.Property."
OBLIGATIONS = [
    Ob("create_property_kinds", _ob_create, timeout=900,
       partition_by_tier={"quick": [1, 2], "thorough": [1, 2, 3]},
       functions=["nixio.section.Section.create_property", _P + "create_new", _P + "values",
                  "nixio.datatype.DataType.get_dtype"],
       replay=lambda a: _real("_ob_create", a),
       outside="lists longer than 3; float / text values outside the tables; NaN and extremes "
               "surviving HDF5 (libhdf5)"),
    Ob("assign_extend_kinds", _ob_assign_extend, timeout=900,
       partition=[(k, op, n) for k in range(4) for op in ("assign", "extend") for n in (1, 2)],
       functions=[_P + "values", _P + "extend_values", _P + "_check_new_value_types"],
       replay=lambda a: _real("_ob_assign_extend", a)),
    Ob("clear_keeps_type", _ob_clear, timeout=600, partition=["none", "empty", "delete"],
       functions=[_P + "delete_values", _P + "values"], replay=lambda a: _real("_ob_clear", a)),
    Ob("section_emptied_and_refilled", _ob_section_history, timeout=600,
       functions=["nixio.section.Section.__delitem__", "nixio.section.Section.__setitem__",
                  "nixio.section.Section.create_property", "nixio.container.Container.__delitem__"],
       replay=lambda a: _real("_ob_section_history", a)),
    Ob("values_through_two_handles", _ob_two_handles, timeout=900,
       functions=[_P + "values", _P + "extend_values", _P + "delete_values", "nixio.section.Section.__setitem__"],
       replay=lambda a: _real("_ob_two_handles", a),
       outside="histories of three operations (assign / extend / clear through the kept handle, through a new "
               "handle, dict-style) on one integer property"),
    Ob("optional_attributes", _ob_optional_attrs, timeout=900,
       functions=[_P + "unit", _P + "uncertainty", _P + "definition", _P + "reference",
                  _P + "dependency", _P + "dependency_value", _P + "value_origin"],
       replay=lambda a: _real("_ob_optional_attrs", a),
       outside="odml_type (an enum with its own compatibility rule)"),
    Ob("section_dict_access", _ob_section_dict, timeout=900,
       functions=["nixio.section.Section.__getitem__", "nixio.section.Section.__setitem__",
                  "nixio.section.Section.__delitem__", "nixio.section.Section.__contains__",
                  "nixio.section.Section.items"],
       replay=lambda a: _real("_ob_section_dict", a)),
]

ASSUMPTIONS = ["np.array / np.shape in property.py are served by a list-preserving shim; conversion of "
               "Python values to HDF5 types and back is libhdf5/NumPy (trusted, exercised by the "
               "real-stack replay only)"]
