"""C13 - Tree searches, parents and 'referring' lists reflect the stored structure.

Real code executed symbolically on fakeh5: nixio.util.find._find_sections /
_find_sources, File.find_sections, Section.find_sections / find_related / parent /
referring_*, Block.find_sources, Source.find_sources / parent_source /
parent_block / _find_parent_recursive / referring_*, Container.__contains__.

Symbolic: the depth limit (any integer, or None), the filter (by name selector),
the start node, the node whose parent is asked for, and one link selector per
(referrer, target) pair.  Trees have repeated names across subtrees and levels.
Oracles are computed from an independent description of the tree (nested tuples),
not from nixio.
"""
from vf.ob import Ob, assume, untraced
from vf import models, fakeh5, nixfake

PROPERTY = "C13"
PART = None
PATH = "/v/c13.nix"

# tree shapes: (name, [children]) - names repeat across subtrees and levels
SHAPES = {
    "s1": [("a", [("x", [("x", []), ("y", [])]), ("y", [])]), ("b", [("x", [("z", [])])])],
    "s2": [("x", [("x", [("x", [])])]), ("y", [])],
    "s3": [("a", []), ("b", [("a", [("b", [])]), ("c", [])]), ("c", [("a", [])])],
    "s4": [("x", [("x", [("x", [("x", [("y", [])])]), ("y", [])])]), ("y", [])],      # depth 5
}
FILTERS = [None, "a", "x", "y", "b", "nope"]


def setup():
    models.install_quiet_format()
    nixfake.install()


def _pick(tbl, i):
    for k in range(len(tbl)):
        if i == k:
            return tbl[k]
    assume(False)


def _paths(shape):
    """all nodes as path tuples, in BFS order"""
    out = []
    level = [((n,), ch) for n, ch in shape]
    while level:
        nxt = []
        for path, ch in level:
            out.append(path)
            nxt += [(path + (n,), c) for n, c in ch]
        level = nxt
    return out


def _bfs(shape, start, limit, fname):
    """independent oracle: BFS order of the nodes within `limit` levels of start
    (start = () means the file/block: roots are level 1) that pass the filter"""
    def children(path):
        nodes = shape
        for p in path:
            nodes = [c for n, c in nodes if n == p][0]
        return [path + (n,) for n, _ in nodes]
    if start == ():
        frontier, depth = children(()), 1
        out = []
    else:
        frontier, depth = [start], 0
        out = []
    while frontier:
        out += frontier
        depth += 1
        if limit is not None and depth > limit:
            break
        nxt = []
        for p in frontier:
            nxt += children(p)
        frontier = nxt
    return [p for p in out if fname is None or p[-1] == fname]


def _build_sections(f, shape):
    with untraced():
        return _build_sections_c(f, shape)


def _build_sources(blk, shape):
    with untraced():
        return _build_sources_c(blk, shape)


def _build_sections_c(f, shape):
    ids = {}

    def rec(parent, nodes, path):
        for n, ch in nodes:
            s = parent.create_section(n, "t")
            ids[path + (n,)] = s.id
            rec(s, ch, path + (n,))
    rec(f, shape, ())
    return ids


def _build_sources_c(blk, shape):
    ids = {}

    def rec(parent, nodes, path):
        for n, ch in nodes:
            s = parent.create_source(n, "t")
            ids[path + (n,)] = s.id
            rec(s, ch, path + (n,))
    rec(blk, shape, ())
    return ids


def _nav_sections(f, path):
    cur = f.sections[path[0]]
    for p in path[1:]:
        cur = cur.sections[p]
    return cur


def _nav_sources(blk, path):
    cur = blk.sources[path[0]]
    for p in path[1:]:
        cur = cur.sources[p]
    return cur


# ---------------------------------------------------------------------------
# 1. searches          PART = (tree kind, shape name)
# ---------------------------------------------------------------------------
def _ob_search(si: int, limit: int, unlimited: bool, fi: int) -> bool:
    """
    pre: 0 <= si < 14
    pre: 0 <= fi < 6
    post: __return__
    """
    import nixio
    kind, shname, fsel = PART
    assume(fi == fsel)
    shape = SHAPES[shname]
    nixfake.begin()
    f = nixio.File(PATH, "w")
    paths = [()] + _paths(shape)
    assume(si < len(paths))
    start = _pick(paths, si)
    lim = None if unlimited else limit
    if lim is not None:
        assume(lim >= (1 if start == () else 0))      # outside: non-positive limits on a file/block
    fname = _pick(FILTERS, fi)
    if kind == "sections":
        ids = _build_sections(f, shape)
        f.create_section("zz-other", "t")
        shape2 = shape + [("zz-other", [])]
        obj = f if start == () else _nav_sections(f, start)
        flt = (lambda s: True) if fname is None else (lambda s: s.name == fname)
        got = obj.find_sections(flt, lim) if True else None
        want = _bfs(shape2, start, lim, fname)
        ids[("zz-other",)] = f.sections["zz-other"].id
    else:
        blk = f.create_block("blk", "t")
        other = f.create_block("other", "t")
        _build_sources(other, shape)                  # same names in another block
        ids = _build_sources(blk, shape)
        obj = blk if start == () else _nav_sources(blk, start)
        flt = (lambda s: True) if fname is None else (lambda s: s.name == fname)
        got = obj.find_sources(flt, lim)
        want = _bfs(shape, start, lim, fname)
    return [g.id for g in got] == [ids[p] for p in want]


# ---------------------------------------------------------------------------
# 2. parents            PART = (tree kind, shape name)
# ---------------------------------------------------------------------------
def _ob_parent(ni: int, how: int) -> bool:
    """
    pre: 0 <= ni < 12
    pre: 0 <= how < 3
    post: __return__
    """
    import nixio
    kind, shname = PART
    shape = SHAPES[shname]
    nixfake.begin()
    f = nixio.File(PATH, "w")
    paths = _paths(shape)
    assume(ni < len(paths))
    path = _pick(paths, ni)
    if kind == "sections":
        ids = _build_sections(f, shape)
        node = _nav_sections(f, path)
        if how == 1:       # handle as handed out by a search (no cached parent)
            node = [s for s in f.find_sections() if s.id == ids[path]][0]
        elif how == 2:     # handle as handed out by a metadata link
            blk = f.create_block("blk", "t")
            blk.metadata = node
            node = f.blocks["blk"].metadata
        par = node.parent
        if len(path) == 1:
            return par is None
        if par is None or par.id != ids[path[:-1]]:
            return False
        # related sections: siblings (without self) followed by children
        rel = [s.id for s in node.find_related()]
        sib = [p for p in paths if len(p) == len(path) and p[:-1] == path[:-1] and p != path]
        chi = [p for p in paths if len(p) == len(path) + 1 and p[:-1] == path]
        want = [ids[path[:-1]]] + [ids[p] for p in sib] + [ids[path]] + [ids[p] for p in chi]
        want = [ids[path[:-1]]] + [ids[p] for p in sib] + [ids[p] for p in [path] + chi]
        # find_related = _find(parent, limit 1) minus self, plus _find(self, limit 1)
        want = [ids[path[:-1]]] + [ids[p] for p in _children_in_order(paths, path[:-1]) if p != path] \
            + [ids[path]] + [ids[p] for p in _children_in_order(paths, path)]
        return rel == want
    blk = f.create_block("blk", "t")
    other = f.create_block("other", "t")
    _build_sources(other, shape)
    ids = _build_sources(blk, shape)
    node = _nav_sources(blk, path)
    if how == 1:
        node = [s for s in blk.find_sources() if s.id == ids[path]][0]
    elif how == 2:
        da = blk.create_data_array("da", "t", data=[1.0])
        da.sources.append(node)
        node = f.blocks["blk"].data_arrays["da"].sources[0]
    if node.parent_block.id != blk.id:
        return False
    par = node.parent_source
    if len(path) == 1:
        return par is None
    return par is not None and par.id == ids[path[:-1]]


def _ob_parent_after_move(mv: int, how: int) -> bool:
    """
    pre: 0 <= mv < 5 and 0 <= how < 3
    post: __return__
    """
    import nixio
    nixfake.begin()
    f = nixio.File(PATH, "w")
    with untraced():
        riga = f.create_section("rigA", "t")
        el = riga.create_section("el", "t")
        riga.create_section("amp", "t")
        el.create_section("tip", "t")
        rigb = f.create_section("rigB", "t")
        rigb.create_section("x", "t")
        blk = f.create_block("blk", "t")

    def handles():
        """name path -> looked-up handle (never the handle a create call returned)"""
        out = {}

        def rec(cont, path):
            for sct in cont:
                out[path + (sct.name,)] = sct
                rec(sct.sections, path + (sct.name,))
        if how == 1:
            # handles as a search hands them out, matched to their place by a walk
            found = {x.id: x for x in f.find_sections()}
            rec(f.sections, ())
            return {k: found[v.id] for k, v in out.items()}
        rec(f.sections, ())
        if how == 2:
            # handles as a metadata link hands them out
            res = {}
            for k, v in out.items():
                blk.metadata = v
                res[k] = f.blocks["blk"].metadata
            return res
        return out

    def parents_ok():
        hs = handles()
        for path, h in hs.items():
            par = h.parent
            if len(path) == 1:
                if par is not None:
                    return False
            elif par is None or par.id != hs[path[:-1]].id or par.name != path[-2]:
                return False
        return True
    if not parents_ok():                      # every parent has been asked for once
        return False
    old = f.sections["rigA"].sections["el"].id
    if mv == 0:                               # the same id moves under another parent
        del f.sections["rigA"].sections["el"]
        f.sections["rigB"].create_section("el", "t", oid=old)
    elif mv == 1:                             # the same name appears under another parent
        del f.sections["rigA"].sections["el"]
        f.sections["rigB"].create_section("el", "t")
    elif mv == 2:                             # a whole subtree is replaced, an old id reappears deeper
        del f.sections["rigA"]
        f.create_section("rigA", "t").create_section("amp", "t").create_section("el", "t", oid=old)
    elif mv == 3:                             # the id moves to the top level
        del f.sections["rigA"].sections["el"]
        f.create_section("el", "t", oid=old)
    else:                                     # a nested section gains a level
        del f.sections["rigA"].sections["el"]
        f.sections["rigA"].sections["amp"].create_section("el", "t", oid=old).create_section("tip", "t")
    return parents_ok()


def _children_in_order(paths, parent):
    return [p for p in paths if len(p) == len(parent) + 1 and p[:-1] == parent]


# ---------------------------------------------------------------------------
# 3. referring lists of a section      PART = referrer kind
# ---------------------------------------------------------------------------
def _ob_referring_section(m1: int, m2: int, m3: int) -> bool:
    """
    pre: 0 <= m1 < 4 and 0 <= m2 < 4 and 0 <= m3 < 4
    post: __return__
    """
    import nixio
    rk, msel = PART
    assume(m1 == msel)
    nixfake.begin()
    f = nixio.File(PATH, "w")
    ids = _build_sections(f, SHAPES["s1"])
    targets = [None, ("a",), ("a", "x"), ("b", "x")]        # two share the name x
    refs = []
    for bn in ("b1", "b2"):
        blk = f.create_block(bn, "t")
        da = blk.create_data_array("da", "t", data=[1.0])
        objs = {"blocks": [blk], "data_arrays": [da, blk.create_data_array("db", "t", data=[2.0])],
                "groups": [blk.create_group("g", "t"), blk.create_group("h", "t")],
                "tags": [blk.create_tag("t", "t", [0.0]), blk.create_tag("u", "t", [0.0])],
                "multi_tags": [blk.create_multi_tag("m", "t", positions=da)],
                "sources": None}[rk]
        if objs is None:
            top = blk.create_source("s", "t")
            objs = [top, top.create_source("nested", "t")]      # a nested source can carry metadata too
        refs += objs
    sel = (m1, m2, m3)
    linked = {}
    for k, obj in enumerate(refs[:3]):
        t = _pick(targets, sel[k])
        if t is not None:
            obj.metadata = _nav_sections(f, t)
            linked[obj.id] = t
    for t in targets[1:]:
        sec = _nav_sections(f, t)
        got = [o.id for o in getattr(sec, "referring_" + rk)]
        want = [o.id for o in refs if linked.get(o.id) == t]
        if got != want:
            return False
        allobjs = [o.id for o in sec.referring_objects]
        if allobjs != want:
            return False
    return True


# ---------------------------------------------------------------------------
# 4. referring lists of a source
# ---------------------------------------------------------------------------
def _ob_referring_source(b1: bool, b2: bool, b3: bool, b4: bool, b5: bool, b6: bool) -> bool:
    """
    post: __return__
    """
    import nixio
    assume((b1, b2) == PART)
    nixfake.begin()
    f = nixio.File(PATH, "w")
    blk = f.create_block("blk", "t")
    other = f.create_block("other", "t")
    _build_sources(other, SHAPES["s2"])
    ids = _build_sources(blk, SHAPES["s2"])        # x / x / x , y
    da = blk.create_data_array("da", "t", data=[1.0])
    tag = blk.create_tag("tg", "t", [0.0])
    mt = blk.create_multi_tag("mt", "t", positions=da)
    s_top = _nav_sources(blk, ("x",))
    s_deep = _nav_sources(blk, ("x", "x"))
    bits = {(da.id, "top"): b1, (da.id, "deep"): b2, (tag.id, "top"): b3, (tag.id, "deep"): b4,
            (mt.id, "top"): b5, (mt.id, "deep"): b6}
    for obj in (da, tag, mt):
        if bits[(obj.id, "top")]:
            obj.sources.append(s_top)
        if bits[(obj.id, "deep")]:
            obj.sources.append(s_deep)
    for key, src in (("top", s_top), ("deep", s_deep)):
        fresh = _nav_sources(f.blocks["blk"], ("x",) if key == "top" else ("x", "x"))
        if [o.id for o in fresh.referring_data_arrays] != [da.id for _ in [0] if bits[(da.id, key)]]:
            return False
        if [o.id for o in fresh.referring_tags] != [tag.id for _ in [0] if bits[(tag.id, key)]]:
            return False
        if [o.id for o in fresh.referring_multi_tags] != [mt.id for _ in [0] if bits[(mt.id, key)]]:
            return False
        want = [o.id for o in (da, tag, mt) if bits[(o.id, key)]]
        if [o.id for o in fresh.referring_objects] != want:
            return False
    return True


_TREES = [(k, s) for k in ("sections", "sources") for s in ("s1", "s2", "s3", "s4")]


def validate():
    # oracle self-check on a hand-computed case
    assert _bfs(SHAPES["s2"], (), None, None) == [("x",), ("y",), ("x", "x"), ("x", "x", "x")]
    assert _bfs(SHAPES["s2"], ("x",), 1, "x") == [("x",), ("x", "x")]
    assert _bfs(SHAPES["s2"], (), 1, None) == [("x",), ("y",)]
    return {"fakeh5_vs_h5py": fakeh5.validate_against_h5py()}


def _real(fn_name, args):
    import os
    import shutil
    import tempfile
    global PATH
    tmp = tempfile.mkdtemp(prefix="vf_c13_")
    fakeh5.uninstall()
    old = PATH
    PATH = os.path.join(tmp, "t.nix")
    try:
        try:
            a = dict(args)
            if "limit" in a:
                a["limit"] = max(min(a["limit"], 2 ** 40), -2 ** 40)
            ok = globals()[fn_name](**a)
        except Exception as e:  # noqa
            import traceback
            return True, {"raised_on_real_stack": traceback.format_exc()[-600:]}
        return (not ok), {"holds_on_real_stack": ok}
    finally:
        PATH = old
        fakeh5.install()
        shutil.rmtree(tmp, ignore_errors=True)


OBLIGATIONS = [
    Ob("bfs_search", _ob_search, timeout=900,
       partition_by_tier={"quick": [(k, s, fi) for k in ("sections", "sources") for s in ("s1", "s4")
                                    for fi in (0, 2, 3, 5)],
                          "thorough": [(k, s, fi) for k, s in _TREES for fi in range(6)]},
       functions=["nixio.util.find._find_sections", "nixio.util.find._find_sources",
                  "nixio.file.File.find_sections", "nixio.section.Section.find_sections",
                  "nixio.block.Block.find_sources", "nixio.source.Source.find_sources"],
       replay=lambda a: _real("_ob_search", a),
       outside="limits < 1 when searching from a file or block (the start is not a tree node); "
               "three fixed tree shapes with repeated names; filters by name"),
    Ob("parents", _ob_parent, timeout=900,
       partition_by_tier={"quick": [(k, s) for k in ("sections", "sources") for s in ("s1", "s2")],
                          "thorough": _TREES},
       functions=["nixio.section.Section.parent", "nixio.section.Section.find_related",
                  "nixio.source.Source.parent_source", "nixio.source.Source.parent_block",
                  "nixio.source.Source._find_parent_recursive", "nixio.container.Container.__contains__"],
       replay=lambda a: _real("_ob_parent", a)),
    Ob("parents_after_restructuring", _ob_parent_after_move, timeout=600,
       functions=["nixio.section.Section.parent", "nixio.container.SectionContainer.__delitem__",
                  "nixio.section.Section.create_section", "nixio.file.File.create_section"],
       replay=lambda a: _real("_ob_parent_after_move", a),
       outside="one section tree, five restructurings (delete, then the same id / the same name re-created under "
               "another parent, deeper, or at the top level), handles looked up after the change; sources"),
    Ob("referring_section", _ob_referring_section, timeout=900,
       partition=[(rk, m) for rk in ("blocks", "groups", "data_arrays", "tags", "multi_tags", "sources")
                  for m in range(4)],
       functions=["nixio.section.Section.referring_blocks", "nixio.section.Section.referring_groups",
                  "nixio.section.Section.referring_data_arrays", "nixio.section.Section.referring_tags",
                  "nixio.section.Section.referring_multi_tags", "nixio.section.Section.referring_sources",
                  "nixio.section.Section.referring_objects"],
       replay=lambda a: _real("_ob_referring_section", a)),
    Ob("referring_source", _ob_referring_source, timeout=900,
       partition=[(x, y) for x in (False, True) for y in (False, True)],
       functions=["nixio.source.Source.referring_data_arrays", "nixio.source.Source.referring_tags",
                  "nixio.source.Source.referring_multi_tags", "nixio.source.Source.referring_objects"],
       replay=lambda a: _real("_ob_referring_source", a)),
]

ASSUMPTIONS = ["fakeh5 object store (differentially validated against h5py each run)",
               "behaviour after reopening is libhdf5's"]
