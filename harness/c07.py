"""C07 - Dimension descriptors map positions to sample indices by order, exactly.

Real code executed symbolically: nixio.dimensions.SampledDimension.{index_of,
range_indices, position_at, axis, offset, sampling_interval},
RangeDimension.{index_of, range_indices, tick_at, axis, ticks, is_alias},
SetDimension.{index_of, range_indices, labels}, SliceMode.to_index_mode,
Dimension.has_link.

Floats are represented by exact rationals Q(n, 16) with symbolic numerator
(DESIGN.md "lattice lemma"): positions / offsets / ticks are k/16 with |k| <= 512
(|x| <= 32), sampling intervals 2^j, j in -3..3.  The NumPy calls of the kernels
are served by vf.models.NpShim injected as nixio.dimensions.np.  Dimension
objects are the real classes over a dict-backed stand-in for their HDF5 group.
Oracles are the set-builder definitions of the statement in integer arithmetic.
"""
from vf.ob import Ob, assume
from vf import models
from vf.models import Q

PROPERTY = "C07"
PART = None
LIM = 512           # |numerator| bound: |x| <= 32 in 1/16 steps
SN = [1, 2, 4, 8, 16, 32, 64]     # sampling interval numerators over 8: 2^-3 .. 2^3


def setup():
    import nixio.dimensions as D
    models.install_quiet_format()
    D.np = models.NpShim()


# ---------------------------------------------------------------------------
# doubles
# ---------------------------------------------------------------------------
class _G:
    """dict-backed stand-in for the H5Group of a dimension descriptor"""

    def __init__(self, attrs=None, data=None):
        self.attrs = dict(attrs or {})
        self.data = dict(data or {})

    def get_attr(self, name):
        return self.attrs.get(name)

    def get_data(self, name):
        return self.data.get(name, [])

    def has_data(self, name):
        return name in self.data

    def __contains__(self, name):
        return name in self.data

    def __len__(self):
        return len(self.data)


def _sampled(sn, on, onone):
    from nixio.dimensions import SampledDimension
    d = SampledDimension.__new__(SampledDimension)
    attrs = {"sampling_interval": Q(sn, 8)}
    if not onone:
        attrs["offset"] = Q(on, 16)
    d._h5group = _G(attrs)
    d.dim_index = 1
    return d


def _range(ticks_n):
    from nixio.dimensions import RangeDimension
    d = RangeDimension.__new__(RangeDimension)
    d._h5group = _G({}, {"ticks": [Q(t, 16) for t in ticks_n]})
    d.dim_index = 1
    return d


def _set(nlabels):
    from nixio.dimensions import SetDimension
    d = SetDimension.__new__(SetDimension)
    data = {}
    if nlabels > 0:
        data["labels"] = ["l%d" % i for i in range(nlabels)]
    d._h5group = _G({}, data)
    d.dim_index = 1
    return d


def _pick(tbl, i):
    for k in range(len(tbl)):
        if i == k:
            return tbl[k]
    assume(False)


def _modes():
    from nixio.dimensions import IndexMode, SliceMode
    return ({"leq": IndexMode.LessOrEqual, "less": IndexMode.Less, "geq": IndexMode.GreaterOrEqual},
            {"excl": SliceMode.Exclusive, "incl": SliceMode.Inclusive})


def _cdiv(a, b):
    return -((-a) // b)


# ---------------------------------------------------------------------------
# oracles (integer arithmetic, all coordinates in units of 1/16)
# sampled: X_i = i*2*sn + on  (i >= 0)
# ---------------------------------------------------------------------------
def _sampled_index_oracle(mode, pn, on, sn):
    """returns ('idx', i) or ('none',)"""
    step = 2 * sn
    t = pn - on
    if mode == "leq":          # max{i>=0 | X_i <= p}
        return ("idx", t // step) if t >= 0 else ("none",)
    if mode == "less":         # max{i>=0 | X_i < p}
        return ("idx", _cdiv(t, step) - 1) if t > 0 else ("none",)
    i = _cdiv(t, step)         # min{i>=0 | X_i >= p}
    return ("idx", i if i > 0 else 0)


def _list_index_oracle(mode, xs, p):
    """xs ascending list of coordinates (finite)"""
    if mode == "leq":
        best = None
        for i in range(len(xs)):
            if xs[i] <= p:
                best = i
        return ("idx", best) if best is not None else ("none",)
    if mode == "less":
        best = None
        for i in range(len(xs)):
            if xs[i] < p:
                best = i
        return ("idx", best) if best is not None else ("none",)
    for i in range(len(xs)):
        if xs[i] >= p:
            return ("idx", i)
    return ("none",)


def _list_range_oracle(smode, xs, a, b):
    sel = [i for i in range(len(xs)) if a <= xs[i] and (xs[i] <= b if smode == "incl" else xs[i] < b)]
    if not sel:
        return None
    return (sel[0], sel[-1])


# ---------------------------------------------------------------------------
# A. SampledDimension.index_of         PART = mode name
# ---------------------------------------------------------------------------
def _ob_sampled_index(pn: int, on: int, onone: bool, si: int) -> bool:
    """
    pre: -LIM <= pn <= LIM and -LIM <= on <= LIM
    pre: 0 <= si < 7
    post: __return__
    """
    imodes, _ = _modes()
    sn = _pick(SN, si)
    off = 0 if onone else on
    d = _sampled(sn, on, onone)
    want = _sampled_index_oracle(PART, pn, off, sn)
    try:
        got = d.index_of(Q(pn, 16), imodes[PART])
    except IndexError:
        return want[0] == "none"
    return want[0] == "idx" and got == want[1]


# ---------------------------------------------------------------------------
# B. SampledDimension.range_indices    PART = slice mode name
# ---------------------------------------------------------------------------
def _ob_sampled_range(an: int, bn: int, on: int, onone: bool) -> bool:
    """
    pre: -LIM <= an <= LIM and -LIM <= bn <= LIM and -LIM <= on <= LIM
    post: __return__
    """
    _, smodes = _modes()
    PART, si = globals()["PART"]
    sn = SN[si]
    off = 0 if onone else on
    d = _sampled(sn, on, onone)
    step = 2 * sn
    lo = _cdiv(an - off, step)
    if lo < 0:
        lo = 0
    if PART == "incl":
        hi = (bn - off) // step
    else:
        hi = _cdiv(bn - off, step) - 1
    want = (lo, hi) if (hi >= lo and hi >= 0) else None
    try:
        got = d.range_indices(Q(an, 16), Q(bn, 16), smodes[PART])
    except IndexError:
        return an > bn          # refusing a reversed interval is acceptable
    if want is None:
        return got is None
    return got is not None and got[0] == want[0] and got[1] == want[1]


# ---------------------------------------------------------------------------
# C. position_at / index_of round trip, axis
# ---------------------------------------------------------------------------
def _ob_sampled_roundtrip(i: int, on: int, onone: bool, si: int) -> bool:
    """
    pre: 0 <= i <= 200
    pre: -LIM <= on <= LIM
    pre: 0 <= si < 7
    post: __return__
    """
    imodes, _ = _modes()
    sn = _pick(SN, si)
    off = 0 if onone else on
    d = _sampled(sn, on, onone)
    pos = d.position_at(i)
    if not (pos == Q(i * 2 * sn + off, 16)):
        return False
    assume(-LIM <= i * 2 * sn + off <= LIM)
    if d.index_of(pos, imodes["leq"]) != i:
        return False
    if d.index_of(pos, imodes["geq"]) != i:
        return False
    if d.index_of(pos) != i:
        return False
    try:
        j = d.index_of(pos, imodes["less"])
    except IndexError:
        return i == 0
    return i > 0 and j == i - 1


def _ob_sampled_axis(start: int, snone: bool, neg: int, on: int, onone: bool, si: int, ci: int) -> bool:
    """
    pre: -LIM <= on <= LIM and 0 <= start <= 200
    pre: 0 <= si < 7 and 0 <= ci < 5 and 0 <= neg < 4
    post: __return__
    """
    sn = _pick(SN, si)
    count = _pick([0, 1, 2, 3, 4], ci)
    off = 0 if onone else on
    d = _sampled(sn, on, onone)
    # negative starts are concrete (the error message is built with '%', which
    # would realise a symbolic value): neg selects 'none' or one of -1, -2, -7
    nstart = _pick([None, -1, -2, -7], neg)
    st = None if snone else (start if nstart is None else nstart)
    try:
        ax = d.axis(count, st)
    except ValueError:
        return st is not None and st < 0
    if st is not None and st < 0:
        return False
    s0 = 0 if st is None else st
    ax = list(ax)
    if len(ax) != count:
        return False
    for j in range(count):
        if not (ax[j] == Q((s0 + j) * 2 * sn + off, 16)):
            return False
    return True


# ---------------------------------------------------------------------------
# D/E/F. RangeDimension              PART = (mode, number of ticks)
# ---------------------------------------------------------------------------
def _ticks(L, t0, d1, d2, d3, d4):
    ds = (d1, d2, d3, d4)
    ts = [t0]
    for j in range(L - 1):
        assume(0 <= ds[j] <= 2 * LIM)
        ts.append(ts[-1] + ds[j])
    assume(-LIM <= t0 and ts[-1] <= LIM)
    return ts


def _ob_range_index(pn: int, t0: int, d1: int, d2: int, d3: int, d4: int) -> bool:
    """
    pre: -LIM <= pn <= LIM
    post: __return__
    """
    imodes, _ = _modes()
    mode, L = PART
    ts = _ticks(L, t0, d1, d2, d3, d4)
    d = _range(ts)
    want = _list_index_oracle(mode, ts, pn)
    try:
        got = d.index_of(Q(pn, 16), imodes[mode])
    except IndexError:
        return want[0] == "none"
    return want[0] == "idx" and got == want[1]


def _ob_range_range(an: int, bn: int, t0: int, d1: int, d2: int, d3: int, d4: int) -> bool:
    """
    pre: -LIM <= an <= LIM and -LIM <= bn <= LIM
    post: __return__
    """
    _, smodes = _modes()
    smode, L = PART
    ts = _ticks(L, t0, d1, d2, d3, d4)
    d = _range(ts)
    want = _list_range_oracle(smode, ts, an, bn)
    try:
        got = d.range_indices(Q(an, 16), Q(bn, 16), smodes[smode])
    except IndexError:
        return an > bn
    if want is None:
        return got is None
    return got is not None and got[0] == want[0] and got[1] == want[1]


def _ob_range_tick_axis(i: int, start: int, ci: int, t0: int, d1: int, d2: int, d3: int, d4: int) -> bool:
    """
    pre: 0 <= ci < 6
    pre: 0 <= start <= 6
    post: __return__
    """
    L = PART
    ts = _ticks(L, t0, d1, d2, d3, d4)
    d = _range(ts)
    count = _pick([0, 1, 2, 3, 4, 5], ci)
    # tick_at
    try:
        tk = d.tick_at(i)
        if not (0 <= i < L or -L <= i < 0):
            return False
        if not (tk == Q(ts[i if i >= 0 else i + L], 16)):
            return False
    except IndexError:
        if -L <= i < L:
            return False
    # index_of(tick_at(i)) with strictly increasing neighbours gives i back
    # axis
    try:
        ax = d.axis(count, start)
    except IndexError:
        return start + count > L
    if start + count > L:
        return False
    ax = list(ax)
    if len(ax) != count:
        return False
    for j in range(count):
        if not (ax[j] == Q(ts[start + j], 16)):
            return False
    return True


def _ob_range_roundtrip(k: int, t0: int, d1: int, d2: int, d3: int, d4: int) -> bool:
    """
    pre: 0 <= k < 5
    post: __return__
    """
    imodes, _ = _modes()
    L = PART
    assume(k < L)
    ts = _ticks(L, t0, d1, d2, d3, d4)
    # strictly increasing so that 'the' sample i is well defined
    for j in range(L - 1):
        assume(ts[j] < ts[j + 1])
    d = _range(ts)
    pos = d.tick_at(k)
    return d.index_of(pos, imodes["leq"]) == k and d.index_of(pos, imodes["geq"]) == k


def _ob_range_after_change(pn: int, t0: int, d1: int, u0: int, e1: int, which: int) -> bool:
    """
    pre: -LIM <= pn <= LIM
    pre: 0 <= which < 3
    post: __return__
    """
    imodes, _ = _modes()
    ts = _ticks(2, t0, d1, 0, 0, 0)
    us = _ticks(2, u0, e1, 0, 0, 0)
    d = _range(ts)                       # ONE descriptor object for the whole history
    mode = _pick(["leq", "less", "geq"], which)
    try:
        d.index_of(Q(pn, 16), imodes[mode])
    except IndexError:
        pass
    # the stored ticks change behind the descriptor (linked array rewritten, other handle)
    d._h5group.data["ticks"] = [Q(t, 16) for t in us]
    if tuple(d.ticks) != tuple(Q(t, 16) for t in us):
        return False
    want = _list_index_oracle(mode, us, pn)
    try:
        got = d.index_of(Q(pn, 16), imodes[mode])
    except IndexError:
        return want[0] == "none"
    return want[0] == "idx" and got == want[1]


# ---------------------------------------------------------------------------
# G/H. SetDimension                    PART = (mode, number of labels)
# coordinates x_i = i, 0 <= i < L (L = 0: no labels stored -> unbounded axis)
# ---------------------------------------------------------------------------
def _set_index_oracle(mode, pn, L):
    # p = pn/16
    if mode == "leq":
        i = pn // 16
        if i < 0:
            return ("none",)
        if L > 0 and i > L - 1:
            i = L - 1
        return ("idx", i)
    if mode == "less":
        i = _cdiv(pn, 16) - 1
        if i < 0:
            return ("none",)
        if L > 0 and i > L - 1:
            i = L - 1
        return ("idx", i)
    i = _cdiv(pn, 16)
    if i < 0:
        i = 0
    if L > 0 and i > L - 1:
        return ("none",)
    return ("idx", i)


def _ob_set_index(pn: int) -> bool:
    """
    pre: -LIM <= pn <= LIM
    post: __return__
    """
    imodes, _ = _modes()
    mode, L = PART
    d = _set(L)
    want = _set_index_oracle(mode, pn, L)
    try:
        got = d.index_of(Q(pn, 16), imodes[mode])
    except IndexError:
        return want[0] == "none"
    return want[0] == "idx" and got == want[1]


def _ob_set_index_int(p: int) -> bool:
    """
    pre: -40 <= p <= 40
    post: __return__
    """
    imodes, _ = _modes()
    mode, L = PART
    d = _set(L)
    want = _set_index_oracle(mode, p * 16, L)
    try:
        got = d.index_of(p, imodes[mode])      # integer positions (the common case)
    except IndexError:
        return want[0] == "none"
    return want[0] == "idx" and got == want[1]


def _ob_set_range(an: int, bn: int) -> bool:
    """
    pre: -LIM <= an <= LIM and -LIM <= bn <= LIM
    post: __return__
    """
    _, smodes = _modes()
    smode, L = PART
    d = _set(L)
    lo = _cdiv(an, 16)
    if lo < 0:
        lo = 0
    hi = (bn // 16) if smode == "incl" else (_cdiv(bn, 16) - 1)
    if L > 0 and hi > L - 1:
        hi = L - 1
    want = (lo, hi) if (hi >= lo and hi >= 0) else None
    try:
        got = d.range_indices(Q(an, 16), Q(bn, 16), smodes[smode])
    except IndexError:
        return an > bn
    if want is None:
        return got is None
    return got is not None and got[0] == want[0] and got[1] == want[1]


# ---------------------------------------------------------------------------
# IEEE-754 round trip for non-dyadic intervals (engine E3, vf.smt_fp)
#   PART = (sampling interval, offset, mode name, N)
# ---------------------------------------------------------------------------
def _ob_ieee_roundtrip(i: int) -> bool:
    """
    pre: 0 <= i
    post: __return__
    """
    from nixio.dimensions import SampledDimension, IndexMode
    si, off, mode, N = PART[:4]
    lo = PART[4] if len(PART) > 4 else 0
    frac = PART[5] if len(PART) > 5 else None
    assume(lo <= i <= N)
    d = SampledDimension.__new__(SampledDimension)
    d._h5group = _G({"sampling_interval": si, "offset": off if off else None})
    pos = d.position_at(i)
    if frac is not None:
        # a position clearly BETWEEN sample i and sample i + 1
        try:
            got = d.index_of(pos + frac * si, getattr(IndexMode, mode))
        except IndexError:
            return False
        return got == (i + 1 if mode == "GreaterOrEqual" else i)
    try:
        got = d.index_of(pos, getattr(IndexMode, mode))
    except IndexError:
        return mode == "Less" and i == 0
    if mode == "Less":
        return i > 0 and got == i - 1
    return got == i


def _custom_ieee():
    import os
    from vf import smt_fp
    si, off, mode, N = PART[:4]
    lo = PART[4] if len(PART) > 4 else 0
    frac = PART[5] if len(PART) > 5 else None
    r = smt_fp.decide(os.environ.get("VERIF_REPO", "/repo"), si, off, mode, N, lo=lo, frac=frac)
    if frac is not None:
        r["bounds_extra"] = "position = position_at(i) + %r * interval (between two samples)" % frac
    r["bounds"] = ["%d <= i <= %d" % (lo, N), "sampling_interval == %r (IEEE double)" % si,
                   "offset == %r (IEEE double)" % off, "mode == %s" % mode]
    r["asserts"] = ["index_of(position_at(i), mode) == i (i - 1 for Less; IndexError iff Less and i == 0), "
                    "evaluated in IEEE-754 binary64 with round-to-nearest-even"]
    if r.get("status") == "violated":
        r["counterexample"] = {"i": r["i"]}
    return r


def _replay_ieee(args):
    ok = _ob_ieee_roundtrip(**args)
    return (not ok), {"real_float_run_holds": ok, "PART": list(PART)}


def _ob_slice_mode(which: bool) -> bool:
    """
    post: __return__
    """
    from nixio.dimensions import IndexMode, SliceMode
    if which:
        return SliceMode.Exclusive.to_index_mode() is IndexMode.Less
    return SliceMode.Inclusive.to_index_mode() is IndexMode.LessOrEqual


# ---------------------------------------------------------------------------
# real-stack replays (real floats, real h5py, public API)
# ---------------------------------------------------------------------------
def _with_real_array(build, call):
    import os
    import shutil
    import tempfile
    import numpy as np
    import nixio
    tmp = tempfile.mkdtemp(prefix="vf_c07_")
    try:
        f = nixio.File.open(os.path.join(tmp, "t.nix"), nixio.FileMode.Overwrite)
        blk = f.create_block("b", "t")
        da = blk.create_data_array("a", "t", data=np.zeros(4))
        dim = build(da)
        try:
            res = ("ok", call(dim))
        except IndexError as e:
            res = ("IndexError", str(e))
        except ValueError as e:
            res = ("ValueError", str(e))
        f.close()
        return res
    finally:
        shutil.rmtree(tmp, ignore_errors=True)


def _norm_idx(res):
    if res[0] != "ok":
        return res[0]
    v = res[1]
    if v is None:
        return None
    if isinstance(v, tuple):
        return tuple(int(x) for x in v)
    return int(v)


def _replay_sampled_index(args):
    import nixio
    sn = SN[args["si"]]
    off = None if args["onone"] else args["on"] / 16
    mode = {"leq": nixio.IndexMode.LessOrEqual, "less": nixio.IndexMode.Less,
            "geq": nixio.IndexMode.GreaterOrEqual}[PART]
    got = _norm_idx(_with_real_array(
        lambda da: da.append_sampled_dimension(sn / 8, offset=off),
        lambda dim: dim.index_of(args["pn"] / 16, mode)))
    want = _sampled_index_oracle(PART, args["pn"], 0 if args["onone"] else args["on"], sn)
    want = want[1] if want[0] == "idx" else "IndexError"
    return got != want, {"got": got, "want": want, "interval": sn / 8, "offset": off,
                         "position": args["pn"] / 16, "mode": PART}


def _replay_sampled_range(args):
    import nixio
    PART, si = globals()["PART"]
    sn = SN[si]
    off = None if args["onone"] else args["on"] / 16
    o = 0 if args["onone"] else args["on"]
    smode = {"excl": nixio.SliceMode.Exclusive, "incl": nixio.SliceMode.Inclusive}[PART]
    got = _norm_idx(_with_real_array(
        lambda da: da.append_sampled_dimension(sn / 8, offset=off),
        lambda dim: dim.range_indices(args["an"] / 16, args["bn"] / 16, smode)))
    xs = [i * 2 * sn + o for i in range(0, 2100)]
    want = _list_range_oracle(PART, xs, args["an"], args["bn"])
    bad = got != want and not (got == "IndexError" and args["an"] > args["bn"])
    return bad, {"got": got, "want": want, "interval": sn / 8, "offset": off,
                 "start": args["an"] / 16, "end": args["bn"] / 16, "mode": PART}


def _replay_range_index(args):
    import nixio
    mode, L = PART
    ts = _ticks(L, args["t0"], args["d1"], args["d2"], args["d3"], args["d4"])
    m = {"leq": nixio.IndexMode.LessOrEqual, "less": nixio.IndexMode.Less,
         "geq": nixio.IndexMode.GreaterOrEqual}[mode]
    got = _norm_idx(_with_real_array(
        lambda da: da.append_range_dimension([t / 16 for t in ts]),
        lambda dim: dim.index_of(args["pn"] / 16, m)))
    want = _list_index_oracle(mode, ts, args["pn"])
    want = want[1] if want[0] == "idx" else "IndexError"
    return got != want, {"got": got, "want": want, "ticks": [t / 16 for t in ts],
                         "position": args["pn"] / 16, "mode": mode}


def _replay_range_range(args):
    import nixio
    smode, L = PART
    ts = _ticks(L, args["t0"], args["d1"], args["d2"], args["d3"], args["d4"])
    m = {"excl": nixio.SliceMode.Exclusive, "incl": nixio.SliceMode.Inclusive}[smode]
    got = _norm_idx(_with_real_array(
        lambda da: da.append_range_dimension([t / 16 for t in ts]),
        lambda dim: dim.range_indices(args["an"] / 16, args["bn"] / 16, m)))
    want = _list_range_oracle(smode, ts, args["an"], args["bn"])
    bad = got != want and not (got == "IndexError" and args["an"] > args["bn"])
    return bad, {"got": got, "want": want, "ticks": [t / 16 for t in ts],
                 "start": args["an"] / 16, "end": args["bn"] / 16, "mode": smode}


def _replay_set_index(args):
    import nixio
    mode, L = PART
    m = {"leq": nixio.IndexMode.LessOrEqual, "less": nixio.IndexMode.Less,
         "geq": nixio.IndexMode.GreaterOrEqual}[mode]
    pn = args["pn"] if "pn" in args else args["p"] * 16
    pos = args["pn"] / 16 if "pn" in args else args["p"]
    got = _norm_idx(_with_real_array(
        lambda da: da.append_set_dimension(["l%d" % i for i in range(L)] if L else None),
        lambda dim: dim.index_of(pos, m)))
    want = _set_index_oracle(mode, pn, L)
    want = want[1] if want[0] == "idx" else "IndexError"
    return got != want, {"got": got, "want": want, "labels": L, "position": pos, "mode": mode}


def _replay_set_range(args):
    import nixio
    smode, L = PART
    m = {"excl": nixio.SliceMode.Exclusive, "incl": nixio.SliceMode.Inclusive}[smode]
    got = _norm_idx(_with_real_array(
        lambda da: da.append_set_dimension(["l%d" % i for i in range(L)] if L else None),
        lambda dim: dim.range_indices(args["an"] / 16, args["bn"] / 16, m)))
    xs = [i * 16 for i in range(L if L else 200)]
    want = _list_range_oracle(smode, xs, args["an"], args["bn"])
    bad = got != want and not (got == "IndexError" and args["an"] > args["bn"])
    return bad, {"got": got, "want": want, "labels": L, "start": args["an"] / 16,
                 "end": args["bn"] / 16, "mode": smode}


def _replay_sampled_roundtrip(args):
    import nixio
    sn = SN[args["si"]]
    off = None if args["onone"] else args["on"] / 16
    i = args["i"]

    def call(dim):
        pos = dim.position_at(i)
        out = [int(dim.index_of(pos)), int(dim.index_of(pos, nixio.IndexMode.GreaterOrEqual))]
        try:
            out.append(int(dim.index_of(pos, nixio.IndexMode.Less)))
        except IndexError:
            out.append("IndexError")
        return out
    res = _with_real_array(lambda da: da.append_sampled_dimension(sn / 8, offset=off), call)
    want = [i, i, i - 1 if i > 0 else "IndexError"]
    got = res[1] if res[0] == "ok" else res[0]
    return got != want, {"got": got, "want": want, "interval": sn / 8, "offset": off, "i": i}


# ---------------------------------------------------------------------------
# validation of the trusted base
# ---------------------------------------------------------------------------
def validate():
    """Q / NpShim against real floats / NumPy; lattice lemma exercised by running
    the real kernels with Q and with floats on 2000 lattice points."""
    import random
    import nixio.dimensions as D
    out = {"q_npshim_cases": models.validate_npshim_and_q()}
    rnd = random.Random(7)
    imodes, smodes = _modes()
    real_np = D.np
    shim = models.NpShim()
    n = 0
    try:
        for _ in range(2000):
            sn = rnd.choice(SN)
            on = rnd.randint(-LIM, LIM)
            onone = rnd.random() < 0.2
            pn = rnd.randint(-LIM, LIM)
            mode = rnd.choice(list(imodes))
            # float run on the real class over the same double, real numpy
            from nixio.dimensions import SampledDimension
            df = SampledDimension.__new__(SampledDimension)
            attrs = {"sampling_interval": sn / 8}
            if not onone:
                attrs["offset"] = on / 16
            df._h5group = _G(attrs)
            D.np = real_np
            try:
                rf = int(df.index_of(pn / 16, imodes[mode]))
            except IndexError:
                rf = "IndexError"
            D.np = shim
            dq = _sampled(sn, on, onone)
            try:
                rq = int(dq.index_of(Q(pn, 16), imodes[mode]))
            except IndexError:
                rq = "IndexError"
            if rf != rq:
                raise AssertionError("lattice lemma violated: float %r vs Q %r at sn=%d on=%d pn=%d %s"
                                     % (rf, rq, sn, on, pn, mode))
            n += 1
    finally:
        D.np = real_np
    out["lattice_points_float_vs_Q"] = n
    import os
    from vf import smt_fp
    out["fp_encoding_vs_real_index_of"] = smt_fp.validate(os.environ.get("VERIF_REPO", "/repo"),
                                                          [(0.1, 0.0), (0.3, 0.7), (0.001, 0.0)])
    return out


_S = "nixio.dimensions.SampledDimension."
_R = "nixio.dimensions.RangeDimension."
_T = "nixio.dimensions.SetDimension."
IM = ["leq", "less", "geq"]
SM = ["excl", "incl"]

ASSUMPTIONS = [
    "floats are modelled by exact rationals on the dyadic lattice k/16, |x| <= 32, sampling "
    "intervals 2^-3..2^3 (DESIGN.md lattice lemma); non-dyadic intervals, magnitudes > 32 and "
    "positions inside the np.isclose tolerance band of a sample are outside the claim",
    "sampling intervals are positive",
]

OBLIGATIONS = [
    Ob("sampled_index_of", _ob_sampled_index, timeout=200, partition=IM,
       functions=[_S + "index_of"], replay=_replay_sampled_index),
    Ob("sampled_range_indices", _ob_sampled_range, timeout=400,
       partition=[(m, k) for m in SM for k in range(7)],
       functions=[_S + "range_indices", _S + "index_of"], replay=_replay_sampled_range),
    Ob("sampled_roundtrip", _ob_sampled_roundtrip, timeout=300,
       functions=[_S + "position_at", _S + "index_of"], replay=_replay_sampled_roundtrip),
    Ob("sampled_axis", _ob_sampled_axis, timeout=200, functions=[_S + "axis"]),
    Ob("range_index_of", _ob_range_index, timeout=300,
       partition_by_tier={"quick": [(m, L) for m in IM for L in (1, 2, 3)],
                          "thorough": [(m, L) for m in IM for L in (1, 2, 3, 4, 5)]},
       functions=[_R + "index_of", _R + "ticks"], replay=_replay_range_index),
    Ob("range_range_indices", _ob_range_range, timeout=600,
       partition_by_tier={"quick": [(m, L) for m in SM for L in (1, 2, 3)],
                          "thorough": [(m, L) for m in SM for L in (1, 2, 3, 4, 5)]},
       functions=[_R + "range_indices", _R + "index_of"], replay=_replay_range_range),
    Ob("range_tick_at_axis", _ob_range_tick_axis, timeout=300,
       partition_by_tier={"quick": [1, 2, 3], "thorough": [1, 2, 3, 4, 5]},
       functions=[_R + "tick_at", _R + "axis"]),
    Ob("range_roundtrip", _ob_range_roundtrip, timeout=300,
       partition_by_tier={"quick": [1, 2, 3], "thorough": [1, 2, 3, 4, 5]},
       functions=[_R + "tick_at", _R + "index_of"]),
    Ob("range_index_after_ticks_change", _ob_range_after_change, timeout=300,
       functions=[_R + "index_of", _R + "ticks"],
       outside="history of length 2 on one descriptor object"),
    Ob("set_index_of", _ob_set_index, timeout=200,
       partition=[(m, L) for m in IM for L in (0, 1, 2, 4)],
       functions=[_T + "index_of", _T + "labels"], replay=_replay_set_index),
    Ob("set_index_of_int", _ob_set_index_int, timeout=200,
       partition=[(m, L) for m in IM for L in (0, 3)],
       functions=[_T + "index_of"], replay=_replay_set_index),
    Ob("set_range_indices", _ob_set_range, timeout=300,
       partition=[(m, L) for m in SM for L in (0, 1, 2, 4)],
       functions=[_T + "range_indices", _T + "index_of"], replay=_replay_set_range),
    Ob("sampled_roundtrip_ieee754", _ob_ieee_roundtrip, timeout=900, custom=_custom_ieee, twin=False,
       partition_by_tier={
           "quick": [(si, off, m, 4096) for si, off in ((0.1, 0.0), (0.001, 0.0), (0.3, 0.7))
                     for m in ("LessOrEqual", "GreaterOrEqual", "Less")] +
                    # positions BETWEEN two samples, offsets that are huge compared with the interval
                    [(0.0005, off, m, 1024, 0, fr) for off in (-250.0, 100.0)
                     for m, fr in (("GreaterOrEqual", 0.4), ("LessOrEqual", 0.6), ("Less", 0.4))],
           "thorough": [(si, off, m, lo + 4095, lo) for si, off in ((0.1, 0.0), (0.001, 0.0), (0.3, 0.7),
                                                                    (0.1, -1.3), (2.5e-05, 0.0),
                                                                    (1.0 / 3.0, 0.25))
                        for m in ("LessOrEqual", "GreaterOrEqual", "Less") for lo in (0, 4096, 8192, 12288)] +
                       [(0.0005, off, m, 4096, 0, fr) for off in (-250.0, 100.0, 1.0e4)
                        for m, fr in (("GreaterOrEqual", 0.4), ("LessOrEqual", 0.6), ("Less", 0.4),
                                      ("GreaterOrEqual", 0.1), ("LessOrEqual", 0.9))]},
       functions=[_S + "position_at", _S + "index_of"], replay=_replay_ieee,
       outside="other interval / offset pairs than the listed concrete doubles; sample numbers above "
               "4096 (quick) / 16383 (thorough, in four chunks); positions other than position_at(i) and "
               "position_at(i) + 0.4 / 0.6 intervals (the latter for interval 0.0005 with offsets -250 and 100, "
               "i <= 1024)"),
    Ob("slice_mode_mapping", _ob_slice_mode, timeout=30,
       functions=["nixio.dimensions.SliceMode.to_index_mode"]),
]
